package trafficpattern

import (
	"github.com/enfein/mieru/v3/pkg/appctl/appctlpb"
)

// H16.1 NewConfig / generateImplicitTrafficPattern over a symbolic, valid
// TrafficPattern: every optional field independently nil or set to any value
// Validate admits.  (customHexStrings left empty: hex decoding is outside.)
func vPattern(tag string) *appctlpb.TrafficPattern {
	tp := &appctlpb.TrafficPattern{}
	if vNondetBool(tag + ".hasSeed") {
		v := vNondetI32(tag + ".seed")
		tp.Seed = &v
	}
	if vNondetBool(tag + ".hasUnlockAll") {
		v := vNondetBool(tag + ".unlockAll")
		tp.UnlockAll = &v
	}
	if vNondetBool(tag + ".hasTcp") {
		tp.TcpFragment = &appctlpb.TCPFragment{}
		if vNondetBool(tag + ".hasTcpEnable") {
			v := vNondetBool(tag + ".tcpEnable")
			tp.TcpFragment.Enable = &v
		}
		if vNondetBool(tag + ".hasTcpSleep") {
			v := vNondetI32(tag + ".tcpSleep")
			tp.TcpFragment.MaxSleepMs = &v
		}
	}
	if vNondetBool(tag + ".hasNonce") {
		tp.Nonce = &appctlpb.NoncePattern{}
		if vNondetBool(tag + ".hasNonceType") {
			v := appctlpb.NonceType(vNondetI32(tag + ".nonceType"))
			tp.Nonce.Type = &v
		}
		if vNondetBool(tag + ".hasApplyAll") {
			v := vNondetBool(tag + ".applyAll")
			tp.Nonce.ApplyToAllUDPPacket = &v
		}
		if vNondetBool(tag + ".hasMinLen") {
			v := vNondetI32(tag + ".minLen")
			tp.Nonce.MinLen = &v
		}
		if vNondetBool(tag + ".hasMaxLen") {
			v := vNondetI32(tag + ".maxLen")
			tp.Nonce.MaxLen = &v
		}
	}
	if vNondetBool(tag + ".hasPadding") {
		tp.Padding = &appctlpb.PaddingPattern{}
		if vNondetBool(tag + ".hasMid") {
			v := vNondetI32(tag + ".mid")
			tp.Padding.MaxMiddlePaddingLen = &v
		}
		if vNondetBool(tag + ".hasEnd") {
			v := vNondetI32(tag + ".end")
			tp.Padding.MaxEndPaddingLen = &v
		}
	}
	if vNondetBool(tag + ".hasLE") {
		tp.LowEntropy = &appctlpb.LowEntropyPattern{}
		if vNondetBool(tag + ".hasMode") {
			v := appctlpb.LowEntropyMode(vNondetI32(tag + ".mode"))
			tp.LowEntropy.Mode = &v
		}
		if vNondetBool(tag + ".hasRot") {
			v := appctlpb.LowEntropyMaskRotation(vNondetI32(tag + ".rot"))
			tp.LowEntropy.MaskRotation = &v
		}
	}
	return tp
}

func vH_C16_newconfig() {
	orig := vPattern("tp")
	if Validate(orig) != nil {
		_, err := NewConfig(orig)
		vAssert(err != nil, "an invalid pattern is rejected")
		return
	}
	c, err := NewConfig(orig)
	vAssert(err == nil && c != nil, "a valid pattern is accepted")
	eff := c.Effective()
	// (a) explicit values are never overridden by implicit generation
	if orig.TcpFragment != nil && orig.TcpFragment.Enable != nil {
		vAssert(eff.TcpFragment.GetEnable() == orig.TcpFragment.GetEnable(), "explicit tcpFragment.enable kept")
	}
	if orig.TcpFragment != nil && orig.TcpFragment.MaxSleepMs != nil {
		vAssert(eff.TcpFragment.GetMaxSleepMs() == orig.TcpFragment.GetMaxSleepMs(), "explicit tcpFragment.maxSleepMs kept")
	}
	if orig.Nonce != nil && orig.Nonce.Type != nil {
		vAssert(eff.Nonce.GetType() == orig.Nonce.GetType(), "explicit nonce.type kept")
	}
	if orig.Nonce != nil && orig.Nonce.ApplyToAllUDPPacket != nil {
		vAssert(eff.Nonce.GetApplyToAllUDPPacket() == orig.Nonce.GetApplyToAllUDPPacket(), "explicit nonce.applyToAllUDPPacket kept")
	}
	if orig.Nonce != nil && orig.Nonce.MinLen != nil {
		vAssert(eff.Nonce.GetMinLen() == orig.Nonce.GetMinLen(), "explicit nonce.minLen kept")
	}
	if orig.Nonce != nil && orig.Nonce.MaxLen != nil {
		vAssert(eff.Nonce.GetMaxLen() == orig.Nonce.GetMaxLen(), "explicit nonce.maxLen kept")
	}
	if orig.Padding != nil && orig.Padding.MaxMiddlePaddingLen != nil {
		vAssert(eff.Padding.GetMaxMiddlePaddingLen() == orig.Padding.GetMaxMiddlePaddingLen(), "explicit padding.maxMiddlePaddingLen kept")
	}
	if orig.Padding != nil && orig.Padding.MaxEndPaddingLen != nil {
		vAssert(eff.Padding.GetMaxEndPaddingLen() == orig.Padding.GetMaxEndPaddingLen(), "explicit padding.maxEndPaddingLen kept")
	}
	if orig.LowEntropy != nil && orig.LowEntropy.Mode != nil {
		vAssert(eff.LowEntropy.GetMode() == orig.LowEntropy.GetMode(), "explicit lowEntropy.mode kept")
	}
	if orig.LowEntropy != nil && orig.LowEntropy.MaskRotation != nil {
		vAssert(eff.LowEntropy.GetMaskRotation() == orig.LowEntropy.GetMaskRotation(), "explicit lowEntropy.maskRotation kept")
	}
	// (b) every field is populated and the result passes validation
	vAssert(eff.TcpFragment != nil && eff.TcpFragment.Enable != nil && eff.TcpFragment.MaxSleepMs != nil &&
		eff.Nonce != nil && eff.Nonce.Type != nil && eff.Nonce.ApplyToAllUDPPacket != nil && eff.Nonce.MinLen != nil && eff.Nonce.MaxLen != nil &&
		eff.Padding != nil && eff.Padding.MaxMiddlePaddingLen != nil && eff.Padding.MaxEndPaddingLen != nil &&
		eff.LowEntropy != nil && eff.LowEntropy.Mode != nil && eff.LowEntropy.MaskRotation != nil, "every implicit field is generated")
	vAssert(Validate(eff) == nil, "the effective pattern passes validation")
	vAssert(eff.Nonce.GetType() != appctlpb.NonceType_NONCE_TYPE_FIXED || (orig.Nonce != nil && orig.Nonce.Type != nil), "NONCE_TYPE_FIXED is never generated implicitly")
	// the original message is not modified
	vAssert(c.Original() == orig, "Original() is the caller's message")
	// (c) implicit values are a deterministic function of the pattern: a second
	// derivation from the same message gives the same effective values
	c2, _ := NewConfig(orig)
	e2 := c2.Effective()
	vAssert(e2.TcpFragment.GetEnable() == eff.TcpFragment.GetEnable() && e2.TcpFragment.GetMaxSleepMs() == eff.TcpFragment.GetMaxSleepMs() &&
		e2.Nonce.GetType() == eff.Nonce.GetType() && e2.Nonce.GetApplyToAllUDPPacket() == eff.Nonce.GetApplyToAllUDPPacket() &&
		e2.Nonce.GetMinLen() == eff.Nonce.GetMinLen() && e2.Nonce.GetMaxLen() == eff.Nonce.GetMaxLen() &&
		e2.Padding.GetMaxMiddlePaddingLen() == eff.Padding.GetMaxMiddlePaddingLen() && e2.Padding.GetMaxEndPaddingLen() == eff.Padding.GetMaxEndPaddingLen() &&
		e2.LowEntropy.GetMode() == eff.LowEntropy.GetMode() && e2.LowEntropy.GetMaskRotation() == eff.LowEntropy.GetMaskRotation(),
		"implicit generation is deterministic")
}
