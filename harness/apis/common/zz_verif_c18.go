package common

import (
	"net"

	"github.com/enfein/mieru/v3/apis/model"
)

// ---- H18.1 PacketOverStreamTunnel ----

// frame layout (docs/protocol.md "UDP Associate Encapsulation"):
//   0x00 | BE16(len) | data | 0xff
func vH_C18_tunnel_frame() {
	l := vNondetInt("len")
	vAssume(l >= 0 && l <= 70000)
	p := make([]byte, 70000)[:l] // contents are irrelevant to the framing; zeroes
	w := &vFakeConn{}
	t := NewPacketOverStreamTunnel(w)
	n, err := t.Write(p)
	if l > 65535 {
		vAssert(err != nil && w.writes == 0, "a datagram larger than 65535 bytes is an error and nothing is written")
		return
	}
	vAssert(err == nil && n == l, "Write reports the datagram length")
	vAssert(w.writes == 1 && len(w.out) == l+4, "exactly one frame of len+4 bytes")
	vAssert(w.out[0] == 0x00 && int(w.out[1])<<8|int(w.out[2]) == l && w.out[3+l] == 0xff, "frame = 00 | BE16(len) | data | ff")
}

// round trip of two datagrams of every size 0..3 through an arbitrarily
// chunked stream; contents symbolic (incl. bytes equal to the markers)
func vH_C18_tunnel_roundtrip()       { vTunnelRoundTrip(3, 3) }
func vH_C18_tunnel_roundtrip_quick() { vTunnelRoundTrip(2, 1) }

func vTunnelRoundTrip(max1, max2 int) {
	for n1 := 0; n1 <= max1; n1++ {
		for n2 := 0; n2 <= max2; n2++ {
			p1, p2 := vNondetBytes("p1", n1), vNondetBytes("p2", n2)
			w := &vFakeConn{}
			t := NewPacketOverStreamTunnel(w)
			_, e1 := t.Write(p1)
			_, e2 := t.Write(p2)
			vAssert(e1 == nil && e2 == nil, "writes succeed")
			r := &vFakeConn{in: w.out, chunky: true}
			rt := NewPacketOverStreamTunnel(r)
			buf := make([]byte, 4)
			g1, err1 := rt.Read(buf)
			vAssert(err1 == nil && g1 == n1, "first datagram: same boundary")
			for i := 0; i < n1; i++ {
				vAssert(buf[i] == p1[i], "first datagram: same bytes")
			}
			g2, err2 := rt.Read(buf)
			vAssert(err2 == nil && g2 == n2, "second datagram: same boundary")
			for i := 0; i < n2; i++ {
				vAssert(buf[i] == p2[i], "second datagram: same bytes")
			}
			_, err3 := rt.Read(buf)
			vAssert(err3 != nil, "nothing more: error, not a phantom datagram")
		}
	}
}

// arbitrary (possibly malformed / truncated) stream: a successful Read is
// exactly one well-formed frame; everything else is an error
func vH_C18_tunnel_malformed() {
	l := vNondetInt("len")
	vAssume(l >= 0 && l <= 10)
	in := vNondetBytes("in", 10)[:l]
	r := &vFakeConn{in: in, chunky: true}
	rt := NewPacketOverStreamTunnel(r)
	buf := make([]byte, 4)
	n, err := rt.Read(buf)
	if err == nil {
		vAssert(l >= 4 && in[0] == 0, "accepted => starts with marker 0x00")
		fl := int(in[1])<<8 | int(in[2])
		vAssert(fl <= 4 && n == fl && l >= 4+fl && in[3+fl] == 0xff, "accepted => declared length fits the buffer, whole frame present, end marker 0xff")
		for i := 0; i < 4; i++ {
			if i < n {
				vAssert(buf[i] == in[3+i], "accepted => payload bytes delivered unchanged")
			}
		}
	} else {
		vAssert(n == 0, "error => no bytes reported")
	}
}

// ---- H18.2 UDPAssociateWrapper ----

type vFakePacketConn struct {
	net.PacketConn
	in       []byte
	from     net.Addr
	sent     []byte
	sentTo   net.Addr
	nwritten int
}

func (c *vFakePacketConn) ReadFrom(p []byte) (int, net.Addr, error) {
	n := copy(p, c.in)
	return n, c.from, nil
}

func (c *vFakePacketConn) WriteTo(p []byte, addr net.Addr) (int, error) {
	c.sent = append([]byte{}, p...)
	c.sentTo = addr
	c.nwritten++
	return len(p), nil
}

// ReadFrom: header 00 00 00 | atyp | addr | port, then the payload (any length incl. 0)
func vReadFrom(atyp byte, alen int) {
	for n := 0; n <= 3; n++ {
		hdr := 3 + 1 + alen + 2
		d := vNondetBytes("dgram", hdr+n)
		vAssume(d[0] == 0 && d[1] == 0 && d[2] == 0 && d[3] == atyp)
		pc := &vFakePacketConn{in: d, from: vFakeAddr{}}
		w := NewUDPAssociateWrapper(pc)
		buf := make([]byte, 8)
		got, addr, err := w.ReadFrom(buf)
		vAssert(err == nil, "a well-formed UDP associate datagram (any payload size incl. empty) is delivered")
		vAssert(got == n, "payload boundary preserved")
		for i := 0; i < n; i++ {
			vAssert(buf[i] == d[hdr+i], "payload bytes preserved")
		}
		ua, ok := addr.(*net.UDPAddr)
		vAssert(ok && ua != nil, "address is a *net.UDPAddr")
		if ok && ua != nil {
			vAssert(ua.Port == int(d[hdr-2])<<8|int(d[hdr-1]), "port is the header's")
			vAssert(len(ua.IP) == alen, "address length is the header's")
			for i := 0; i < alen; i++ {
				vAssert(ua.IP[i] == d[4+i], "address bytes are the header's")
			}
		}
	}
}

func vH_C18_wrapper_readfrom_v4() { vReadFrom(1, 4) }
func vH_C18_wrapper_readfrom_v6() { vReadFrom(4, 16) }

// WriteTo: the datagram sent is header(addr) | payload and goes to addr
func vH_C18_wrapper_writeto() {
	for n := 0; n <= 3; n++ {
		p := vNondetBytes("p", n)
		ip := vNondetBytes("ip", 4)
		port := int(vNondetU16("port"))
		dst := model.NetAddrSpec{AddrSpec: model.AddrSpec{IP: net.IP(ip), Port: port}, Net: "udp"}
		pc := &vFakePacketConn{}
		w := NewUDPAssociateWrapper(pc)
		got, err := w.WriteTo(p, dst)
		vAssert(err == nil && got == n, "WriteTo reports the payload length")
		vAssert(pc.nwritten == 1 && len(pc.sent) == 10+n, "one datagram of header+payload")
		vAssert(pc.sent[0] == 0 && pc.sent[1] == 0 && pc.sent[2] == 0 && pc.sent[3] == 1, "RSV RSV FRAG ATYP=IPv4")
		for i := 0; i < 4; i++ {
			vAssert(pc.sent[4+i] == ip[i], "header carries the destination address")
		}
		vAssert(int(pc.sent[8])<<8|int(pc.sent[9]) == port, "header carries the destination port")
		for i := 0; i < n; i++ {
			vAssert(pc.sent[10+i] == p[i], "payload follows the header unchanged")
		}
	}
}
