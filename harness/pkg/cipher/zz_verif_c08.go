package cipher

import (
	"crypto/sha256"
	"encoding/binary"
	"time"

	"golang.org/x/crypto/pbkdf2"
)

// H8.1 key agreement: a sender at instant tc uses slot 1 of its three time
// slots; a receiver at ts = tc + d tries its own three slots.  For |d| <= 60 s
// the sender's key is among the receiver's; for |d| >= 240 s it is not
// (assuming the KDF does not collide on the slots compared).
func vKeysEqual(a, b *aeadBlockCipher) bool {
	for i := 0; i < DefaultKeyLen; i++ {
		if a.key[i] != b.key[i] {
			return false
		}
	}
	return true
}

func vSlotTimes(t time.Time) [3]int64 {
	r := t.Round(KeyRefreshInterval)
	return [3]int64{r.Add(-KeyRefreshInterval).Unix(), r.Unix(), r.Add(KeyRefreshInterval).Unix()}
}

// vRefKey is the documented derivation for one slot instant: PBKDF2-SHA256 of
// the (hashed) password with salt SHA-256(BE64(slot seconds)), 64 iterations,
// 32 bytes.
func vRefKey(pw []byte, slot int64) []byte {
	var b [8]byte
	binary.BigEndian.PutUint64(b[:], uint64(slot))
	salt := sha256.Sum256(b[:])
	return pbkdf2.Key(pw, salt[:], 64, 32, sha256.New)
}

// H8.1b: every key newBlockCipherList derives at instant t is the documented
// function of (password, slot_i(t)).  Together with H8.1a (the slot sets of two
// instants at most 60 s apart intersect in the sender's slot) this gives key
// agreement by function congruence.
func vH_C08_key_is_function_of_slot() {
	pw := vNondetBytes("pw", 32)
	t := time.Unix(vNondetI64("t.sec"), 0).Add(time.Duration(vNondetI64("t.ns")))
	vAssume(t.Unix() >= 600 && t.Unix() < 1<<35)
	cl, err := newBlockCipherList(pw, t)
	vAssert(err == nil && len(cl) == 3, "three ciphers derived")
	slots := vSlotTimes(t)
	for i := 0; i < 3; i++ {
		ref := vRefKey(pw, slots[i])
		same := true
		for k := 0; k < DefaultKeyLen; k++ {
			if cl[i].key[k] != ref[k] {
				same = false
			}
		}
		vAssert(same, "key i = PBKDF2(pw, SHA256(BE64(slot_i)), 64, 32)")
		vAssert(cl[i].IsStateless(), "derived template ciphers are stateless")
	}
	// the entry BlockCipherFromPassword hands out is slot 1 (the nearest)
	vAssert(cipherKeyEpoch(t) == slots[1], "epoch = middle slot")
}

// Slot arithmetic on the real saltFromTime inputs: which instants feed SHA-256.
func vH_C08_slots() {
	tc := time.Unix(vNondetI64("tc.sec"), 0).Add(time.Duration(vNondetI64("tc.ns")))
	d := vNondetI64("skew.ns")
	vAssume(tc.Unix() >= 600 && tc.Unix() < 1<<35)
	vAssume(d >= -1_000_000_000_000 && d <= 1_000_000_000_000)
	ts := tc.Add(time.Duration(d))
	c := vSlotTimes(tc)
	s := vSlotTimes(ts)
	common := c[1] == s[0] || c[1] == s[1] || c[1] == s[2]
	if d >= -60_000_000_000 && d <= 60_000_000_000 {
		vAssert(common, "|skew| <= 60 s: sender slot among receiver slots")
	}
	if d >= 240_000_000_000 || d <= -240_000_000_000 {
		vAssert(!common, "|skew| >= 240 s: sender slot not among receiver slots")
	}
	vAssert(c[1]%120 == 0 && c[0] == c[1]-120 && c[2] == c[1]+120, "slots are consecutive multiples of 120 s")
	vAssert(cipherKeyEpoch(tc) == c[1], "cipherKeyEpoch is the middle slot")
	// documented: unixTime rounded to the nearest 2 minutes
	vAssert(c[1] == (tc.Unix()+60)/120*120, "middle slot = unix time rounded to the nearest 120 s (halves up)")
	// rounding to the nearest 2 minutes, halves up (documented: nearest)
	diff := c[1] - tc.Unix()
	vAssert(diff >= -60 && diff <= 60, "rounded slot within 60 s of the instant")
}
