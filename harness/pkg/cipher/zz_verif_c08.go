package cipher

import "time"

// H8.1 key agreement: a sender at instant tc uses slot 1 of its three time
// slots; a receiver at ts = tc + d tries its own three slots.  For |d| <= 60 s
// the sender's key is among the receiver's; for |d| >= 240 s it is not
// (assuming the KDF does not collide on the slots compared).
func vKeysEqual(a, b *aeadBlockCipher) bool {
	for i := 0; i < DefaultKeyLen; i++ {
		if a.key[i] != b.key[i] {
			return false
		}
	}
	return true
}

func vSlotTimes(t time.Time) [3]int64 {
	r := t.Round(KeyRefreshInterval)
	return [3]int64{r.Add(-KeyRefreshInterval).Unix(), r.Unix(), r.Add(KeyRefreshInterval).Unix()}
}

func vH_C08_key_agreement() {
	pw := vNondetBytes("pw", 32)
	tc := time.Unix(vNondetI64("tc.sec"), 0).Add(time.Duration(vNondetI64("tc.ns")))
	d := vNondetI64("skew.ns")
	vAssume(tc.Unix() >= 120 && tc.Unix() < 1<<35)
	vAssume(d >= -60_000_000_000 && d <= 60_000_000_000)
	ts := tc.Add(time.Duration(d))
	cl, err1 := newBlockCipherList(pw, tc)
	sl, err2 := newBlockCipherList(pw, ts)
	vAssert(err1 == nil && err2 == nil && len(cl) == 3 && len(sl) == 3, "three ciphers derived")
	vAssert(vKeysEqual(cl[1], sl[0]) || vKeysEqual(cl[1], sl[1]) || vKeysEqual(cl[1], sl[2]),
		"|skew| <= 60 s: the sender's key is one of the receiver's three")
	// and the other direction (server replies with its slot 1, client tries three)
	vAssert(vKeysEqual(sl[1], cl[0]) || vKeysEqual(sl[1], cl[1]) || vKeysEqual(sl[1], cl[2]),
		"|skew| <= 60 s: the receiver's key is one of the sender's three")
}

// Slot arithmetic on the real saltFromTime inputs: which instants feed SHA-256.
func vH_C08_slots() {
	tc := time.Unix(vNondetI64("tc.sec"), 0).Add(time.Duration(vNondetI64("tc.ns")))
	d := vNondetI64("skew.ns")
	vAssume(tc.Unix() >= 600 && tc.Unix() < 1<<35)
	vAssume(d >= -1_000_000_000_000 && d <= 1_000_000_000_000)
	ts := tc.Add(time.Duration(d))
	c := vSlotTimes(tc)
	s := vSlotTimes(ts)
	common := c[1] == s[0] || c[1] == s[1] || c[1] == s[2]
	if d >= -60_000_000_000 && d <= 60_000_000_000 {
		vAssert(common, "|skew| <= 60 s: sender slot among receiver slots")
	}
	if d >= 240_000_000_000 || d <= -240_000_000_000 {
		vAssert(!common, "|skew| >= 240 s: sender slot not among receiver slots")
	}
	vAssert(c[1]%120 == 0 && c[0] == c[1]-120 && c[2] == c[1]+120, "slots are consecutive multiples of 120 s")
	vAssert(cipherKeyEpoch(tc) == c[1], "cipherKeyEpoch is the middle slot")
	// rounding to the nearest 2 minutes, halves up (documented: nearest)
	diff := c[1] - tc.Unix()
	vAssert(diff >= -60 && diff <= 60, "rounded slot within 60 s of the instant")
}
