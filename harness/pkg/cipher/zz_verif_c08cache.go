package cipher

import (
	"encoding/binary"
	"sync"
	"time"
)

// H8.4 key-cache validity: one call of StatelessDecryptor.tryDecryptAt (and of
// getCachedCiphers beneath it) from an ARBITRARY cache state - the decryptor's
// own entry and the process-wide password cache each absent or holding an
// entry derived for an arbitrary epoch at an arbitrary earlier or later
// instant - with an arbitrary clock value (also non-monotonic: "now" may lie
// before the entries' creation times) and every jitter draw.
//
// Representation invariant assumed of every cache entry and asserted of every
// entry present afterwards: cipherList holds the three keys of the slots
// epoch-120, epoch, epoch+120.  Keys are tagged by their slot (the derivation
// itself - key = KDF(password, slot) - is H8.1b; newBlockCipherList is replaced
// by that contract here).  A segment sealed under the key of slot S opens under
// exactly the ciphers whose key is that of S (ideal AEAD).

var vSegSlot int64 // the slot whose key sealed the segment offered to the decryptor

func vSlotKey(slot int64) [DefaultKeyLen]byte {
	var k [DefaultKeyLen]byte
	binary.BigEndian.PutUint64(k[:8], uint64(slot))
	return k
}

func vKeySlot(c *aeadBlockCipher) int64 { return int64(binary.BigEndian.Uint64(c.key[:8])) }

func vListFor(epoch int64) []*aeadBlockCipher {
	return []*aeadBlockCipher{
		{aeadType: XChaCha20Poly1305, key: vSlotKey(epoch - 120)},
		{aeadType: XChaCha20Poly1305, key: vSlotKey(epoch)},
		{aeadType: XChaCha20Poly1305, key: vSlotKey(epoch + 120)},
	}
}

// contract stub of newBlockCipherList (decided by H8.1b)
func vStubNewBlockCipherList(password []byte, now time.Time) ([]*aeadBlockCipher, error) {
	return vListFor(cipherKeyEpoch(now)), nil
}

// ideal AEAD at the DecryptStatelessTo level
func vStubDecryptStatelessTo(c *aeadBlockCipher, ciphertext, dst []byte) ([]byte, error) {
	if vKeySlot(c) == vSegSlot {
		return append(dst, 1), nil
	}
	return nil, errUnableToDecrypt
}

func vArbEntry(tag string) *cachedCiphers {
	ep := vNondetI64(tag + ".epoch")
	vAssume(ep%120 == 0 && ep >= 1200 && ep < 1<<33)
	ct := time.Unix(vNondetI64(tag+".create.sec"), 0)
	vAssume(ct.Unix() >= 600 && ct.Unix() < 1<<33)
	return &cachedCiphers{cipherList: vListFor(ep), createTime: ct, epoch: ep}
}

func vEntryValid(e *cachedCiphers) bool {
	return len(e.cipherList) == 3 && vKeySlot(e.cipherList[0]) == e.epoch-120 && vKeySlot(e.cipherList[1]) == e.epoch && vKeySlot(e.cipherList[2]) == e.epoch+120
}

func vH_C08_key_cache_step() {
	d := &StatelessDecryptor{password: "pw"}
	if vNondetBool("own.present") {
		d.ciphers.Store(vArbEntry("own"))
	}
	blockCipherCache = sync.Map{}
	if vNondetBool("shared.present") {
		blockCipherCache.Store("pw", vArbEntry("shared"))
	}
	now := time.Unix(vNondetI64("now.sec"), 0)
	vAssume(now.Unix() >= 1200 && now.Unix() < 1<<33)
	vSegSlot = vNondetI64("seg.slot")
	vAssume(vSegSlot%120 == 0)
	block, pt, err := d.tryDecryptAt(make([]byte, 72), nil, now)
	ep := cipherKeyEpoch(now)
	inWindow := vSegSlot == ep-120 || vSegSlot == ep || vSegSlot == ep+120
	if err == nil {
		vAssert(block != nil && len(pt) == 1, "success returns a cipher and the plaintext")
		vAssert(inWindow, "a segment is opened only with a key of the three slots around the receiver's clock (cached keys are never used for another slot)")
		vAssert(vKeySlot(block.(*aeadBlockCipher)) == vSegSlot, "the cipher handed on carries the key that opened the segment")
	} else {
		vAssert(!inWindow, "a segment keyed for one of the receiver's three slots is opened (no stale key list in the way)")
	}
	own := d.ciphers.Load()
	vAssert(own != nil && own.epoch == ep && vEntryValid(own), "afterwards the decryptor's entry is the one derived for the current slot")
	if v, ok := blockCipherCache.Load("pw"); ok {
		sh := v.(*cachedCiphers)
		vAssert(vEntryValid(sh), "the shared cache entry still matches the epoch it was derived for")
	}
}

// getCachedCiphers alone: the entry returned for `now` always belongs to the
// current slot and is not older than cacheValidInterval.
func vH_C08_get_cached_ciphers() {
	blockCipherCache = sync.Map{}
	var pre *cachedCiphers
	if vNondetBool("shared.present") {
		pre = vArbEntry("shared")
		blockCipherCache.Store("pw", pre)
	}
	now := time.Unix(vNondetI64("now.sec"), 0)
	vAssume(now.Unix() >= 1200 && now.Unix() < 1<<33)
	e, err := getCachedCiphers("pw", now)
	vAssert(err == nil && e != nil, "an entry is returned")
	vAssert(e.epoch == cipherKeyEpoch(now) && vEntryValid(e), "the entry returned belongs to the current slot")
	if e == pre {
		vAssert(!pre.createTime.Add(cacheValidInterval).Before(now), "a reused entry is not older than KeyRefreshInterval/4")
	} else {
		vAssert(e.createTime.Equal(now), "a fresh entry is stamped with the current instant")
		v, ok := blockCipherCache.Load("pw")
		vAssert(ok && v.(*cachedCiphers) == e, "a fresh entry replaces the cached one")
	}
}
