package cipher

import (
	"github.com/enfein/mieru/v3/pkg/appctl/appctlpb"
)

// H16.3 nonce pattern on the wire: the real aeadBlockCipher.newNonceTo /
// nonceRewriteLen / SetNoncePattern / Clone for every nonce type, length range,
// applyToAllUDPPacket setting, on the cipher itself AND on its Clone (both TCP
// sending ciphers are clones: client t.block.Clone(), server t.recv.Clone()).
// The alphabet rewriters are replaced by recorders (which range was rewritten,
// with which alphabet).
var vRWKind, vRWBegin, vRWEnd, vRWCalls int

func vStubToPrintable(b []byte, beginIdx, endIdx int) {
	vRWKind, vRWBegin, vRWEnd = 1, beginIdx, endIdx
	vRWCalls++
}
func vStubToCommon64(b []byte, beginIdx, endIdx int) {
	vRWKind, vRWBegin, vRWEnd = 2, beginIdx, endIdx
	vRWCalls++
}

func vH_C16_nonce_pattern()       { vNoncePattern(false, false) }
func vH_C16_nonce_pattern_clone() { vNoncePattern(false, true) }
func vH_C16_nonce_pattern2()      { vNoncePattern(true, vNondetBool("clone")) }

func vNoncePattern(twoPrefixes bool, clone bool) {
	key := vNondetBytes("key", 32)
	c, err := newXChaCha20Poly1305BlockCipher(key)
	vAssert(err == nil, "cipher built")
	np := &appctlpb.NoncePattern{}
	var typ appctlpb.NonceType
	switch vNondetU8("type") & 3 {
	case 0:
		typ = appctlpb.NonceType_NONCE_TYPE_RANDOM
	case 1:
		typ = appctlpb.NonceType_NONCE_TYPE_PRINTABLE
	case 2:
		typ = appctlpb.NonceType_NONCE_TYPE_PRINTABLE_SUBSET
	default:
		typ = appctlpb.NonceType_NONCE_TYPE_FIXED
	}
	np.Type = &typ
	minLen, maxLen := vNondetI32("minLen"), vNondetI32("maxLen")
	vAssume(minLen >= 0 && minLen <= maxLen && maxLen <= 24) // what Validate admits (and a little more)
	np.MinLen, np.MaxLen = &minLen, &maxLen
	applyAll := vNondetBool("applyToAllUDPPacket")
	np.ApplyToAllUDPPacket = &applyAll
	if typ == appctlpb.NonceType_NONCE_TYPE_FIXED {
		np.CustomHexStrings = []string{"a1b2c3d4"}
		if twoPrefixes {
			np.CustomHexStrings = append(np.CustomHexStrings, "01020304")
		}
	}
	c.SetNoncePattern(np)
	stateful := vNondetBool("stateful")
	c.SetImplicitNonceMode(stateful)
	use := c
	if clone {
		use = c.Clone().(*aeadBlockCipher)
		got := use.NoncePattern()
		vAssert(got != nil && got.GetType() == typ && got.GetMinLen() == minLen && got.GetMaxLen() == maxLen, "a clone reports the same nonce pattern")
	}
	vRWKind, vRWCalls = 0, 0
	nonce := make([]byte, 24)
	vAssert(use.newNonceTo(nonce) == nil, "nonce generated")
	switch typ {
	case appctlpb.NonceType_NONCE_TYPE_RANDOM:
		vAssert(vRWCalls == 0, "random type: nonce left as drawn")
	case appctlpb.NonceType_NONCE_TYPE_PRINTABLE, appctlpb.NonceType_NONCE_TYPE_PRINTABLE_SUBSET:
		want := 1
		if typ == appctlpb.NonceType_NONCE_TYPE_PRINTABLE_SUBSET {
			want = 2
		}
		vAssert(vRWCalls == 1 && vRWKind == want && vRWBegin == 0, "the configured alphabet is applied once, from the first nonce byte")
		vAssert(vRWEnd >= int(minLen) && vRWEnd <= int(maxLen), "the rewritten prefix length lies in the configured [minLen, maxLen]")
	default:
		vAssert(vRWCalls == 0, "fixed type: no alphabet rewriting")
		p1 := nonce[0] == 0xa1 && nonce[1] == 0xb2 && nonce[2] == 0xc3 && nonce[3] == 0xd4
		p2 := nonce[0] == 1 && nonce[1] == 2 && nonce[2] == 3 && nonce[3] == 4
		vAssert(p1 || (twoPrefixes && p2), "fixed type: the nonce starts with one of the configured prefixes (on a clone too)")
	}
	// a stateless (UDP) cipher applies the pattern once unless applyToAllUDPPacket
	if !stateful && typ != appctlpb.NonceType_NONCE_TYPE_RANDOM {
		vRWCalls = 0
		n2 := make([]byte, 24)
		vAssert(use.newNonceTo(n2) == nil, "second nonce generated")
		if typ != appctlpb.NonceType_NONCE_TYPE_FIXED {
			vAssert((vRWCalls == 1) == applyAll, "UDP: the pattern is applied to later packets iff applyToAllUDPPacket")
		}
	}
}
