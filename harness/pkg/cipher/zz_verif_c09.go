package cipher

import (
	"crypto/sha256"
)

// References written from docs/protocol.md "Key Generation Method".

// H9.1 hashedPassword = SHA-256(password | 0x00 | username)
func vH_C09_hash_password() {
	for pl := 0; pl <= 3; pl++ {
		for ul := 1; ul <= 3; ul++ {
			pw, user := vNondetBytes("pw", pl), vNondetBytes("user", ul)
			got := HashPassword(pw, user)
			in := make([]byte, 0, pl+1+ul)
			in = append(in, pw...)
			in = append(in, 0x00)
			in = append(in, user...)
			ref := sha256.Sum256(in)
			vAssert(len(got) == 32, "hashed password is 32 bytes")
			same := true
			for i := 0; i < 32; i++ {
				if got[i] != ref[i] {
					same = false
				}
			}
			vAssert(same, "hashedPassword = SHA-256(password | 0x00 | username)")
		}
	}
}

// H9.3 user hint: the last 4 bytes of the nonce are replaced by the first 4
// bytes of SHA-256(username | nonce[0:16]); the first 20 bytes are untouched;
// CheckUserFromHint accepts exactly that.
func vH_C09_user_hint() {
	for ul := 1; ul <= 3; ul++ {
		name := vNondetBytes("user", ul)
		nonce := vNondetBytes("nonce", 24)
		var orig [24]byte
		copy(orig[:], nonce)
		c := &aeadBlockCipher{ctx: BlockContext{UserName: string(name)}}
		out := c.addUserHintToNonce(nonce)
		vAssert(len(out) == 24, "nonce stays 24 bytes")
		in := make([]byte, 0, ul+16)
		in = append(in, name...)
		in = append(in, orig[:16]...)
		ref := sha256.Sum256(in)
		for i := 0; i < 20; i++ {
			vAssert(out[i] == orig[i], "the first 20 nonce bytes are untouched")
		}
		for i := 0; i < 4; i++ {
			vAssert(out[20+i] == ref[i], "nonce[20:24] = first 4 bytes of SHA-256(username | nonce[0:16])")
		}
		vAssert(CheckUserFromHint(name, out), "CheckUserFromHint accepts the hinted nonce of the same user")
	}
}

// H9.5 TCP nonce progression: +1 on the 192-bit big-endian integer
func vH_C09_increase_nonce() {
	n := vNondetBytes("nonce", 24)
	var before [24]byte
	copy(before[:], n)
	c := &aeadBlockCipher{enableImplicitNonce: true, implicitNonce: n}
	c.increaseNonce()
	// reference: ripple carry from the last byte
	carry := true
	for i := 23; i >= 0; i-- {
		want := before[i]
		if carry {
			want++
			carry = want == 0
		}
		vAssert(c.implicitNonce[i] == want, "nonce := nonce + 1 (192-bit big endian, wrapping)")
	}
}
