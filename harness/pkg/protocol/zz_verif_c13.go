package protocol

import (
	"github.com/enfein/mieru/v3/pkg/common"
)

// H13.1 receive side of the UDP transport, one step from an arbitrary state:
// nextRecv advances exactly over segments moved to the application queue, each
// moved segment carried seq == nextRecv at that moment, duplicates are dropped
// and nothing beyond a gap is delivered - so the cumulative ack (nextRecv) never
// runs ahead of what was received in order.
func vH_C13_inputData_packet() {
	isClient := vNondetBool("isClient")
	s := vNewSession(7, isClient, common.PacketTransport)
	r0 := vNondetU32("nextRecv")
	vAssume(r0 < 0xfffffff0) // sequence number wrap-around is outside the claim
	s.nextRecv.Store(r0)
	// arbitrary receive buffer: up to 2 out-of-order segments above nextRecv
	k := int(vNondetU8("buffered"))
	vAssume(k <= 2)
	var buffered [2]*segment
	for i := 0; i < 2; i++ {
		if i < k {
			b := vDataSeg("buf", !isClient, 7, 2)
			vAssume(vSeq(b) > r0 && vSeq(b) < r0+8)
			buffered[i] = b
			s.recvBuf.Insert(b)
		}
	}
	seg := vDataSeg("in", !isClient, 7, 2)
	q := vSeq(seg)
	vAssume(q < r0+8 || q < r0) // near the window (far-future segments are only dropped)
	err := s.inputData(seg)
	vAssert(err == nil, "inputData accepts a data segment")
	r1 := s.nextRecv.Load()
	vAssert(r1 >= r0 && r1-r0 <= 3, "nextRecv never decreases and advances by at most the segments at hand")
	// everything in the application queue has seq in [r0, r1) and is exactly the run r0, r0+1, ...
	m := vTrees[s.recvQueue.tr]
	vAssert(uint32(m.n) == r1-r0, "nextRecv advanced by exactly the number of segments delivered")
	for i := 0; i < vTreeK; i++ {
		if i < m.n {
			vAssert(vSeq(m.items[i]) == r0+uint32(i), "delivered segments are the consecutive run starting at the old nextRecv (no gap, no duplicate)")
			d := m.items[i]
			vAssert(d == seg || d == buffered[0] || d == buffered[1], "only segments actually received are delivered")
		}
	}
	// what stays buffered is strictly above the new nextRecv
	b := vTrees[s.recvBuf.tr]
	for i := 0; i < vTreeK; i++ {
		if i < b.n {
			vAssert(vSeq(b.items[i]) > r1 || vSeq(b.items[i]) >= r1, "nothing at or below nextRecv is left undelivered in the buffer unless it is a gap")
		}
	}
	if q == r0 {
		vAssert(r1 > r0, "the expected segment is delivered and acknowledged")
	}
	if q > r0 && !(k >= 1 && vSeq(buffered[0]) == r0) && !(k >= 2 && vSeq(buffered[1]) == r0) {
		vAssert(r1 == r0, "a segment beyond a gap does not advance the cumulative ack")
	}
}
