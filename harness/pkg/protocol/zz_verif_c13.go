package protocol

import (
	"time"

	"github.com/enfein/mieru/v3/pkg/common"
	"github.com/enfein/mieru/v3/pkg/congestion"
)

// H13.1 receive side of the UDP transport, one step from an arbitrary state:
// nextRecv advances exactly over segments moved to the application queue, each
// moved segment carried seq == nextRecv at that moment, duplicates are dropped
// and nothing beyond a gap is delivered - so the cumulative ack (nextRecv) never
// runs ahead of what was received in order.
func vH_C13_inputData_packet() { vInputDataStep(false) }

// the same step when the incoming segment is a SESSION segment (a duplicate
// open-session response at a client, a duplicate open-session request at a
// server): it takes part in the same sequence space and must not move the
// cumulative ack unless it is the expected one
func vH_C13_inputData_session() { vInputDataStep(true) }

func vInputDataStep(sessionSeg bool) {
	isClient := vNondetBool("isClient")
	s := vNewSession(7, isClient, common.PacketTransport)
	r0 := vNondetU32("nextRecv")
	vAssume(r0 < 0xfffffff0) // sequence number wrap-around is outside the claim
	s.nextRecv.Store(r0)
	// arbitrary receive buffer: up to 2 out-of-order segments above nextRecv
	k := int(vNondetU8("buffered"))
	vAssume(k <= 2)
	var buffered [2]*segment
	for i := 0; i < 2; i++ {
		if i < k {
			b := vDataSeg("buf", !isClient, 7, 2)
			vAssume(vSeq(b) > r0 && vSeq(b) < r0+8)
			buffered[i] = b
			s.recvBuf.Insert(b)
		}
	}
	seg := vDataSeg("in", !isClient, 7, 2)
	if sessionSeg {
		p := uint8(openSessionRequest)
		if isClient {
			p = uint8(openSessionResponse)
		}
		seg = &segment{metadata: &sessionStruct{baseStruct: baseStruct{protocol: p}, sessionID: 7, seq: vNondetU32("in.seq")}, transport: common.PacketTransport}
		s.forwardStateTo(sessionAttached)
		s.forwardStateTo(sessionEstablished) // a duplicate: the handshake already completed
	}
	q := vSeq(seg)
	vAssume(q < r0+8 || q < r0) // near the window (far-future segments are only dropped)
	err := s.inputData(seg)
	vAssert(err == nil, "inputData accepts a data segment")
	r1 := s.nextRecv.Load()
	vAssert(r1 >= r0 && r1-r0 <= 3, "nextRecv never decreases and advances by at most the segments at hand")
	// everything in the application queue has seq in [r0, r1) and is exactly the run r0, r0+1, ...
	m := vModelOf(s.recvQueue)
	vAssert(uint32(m.n) == r1-r0, "nextRecv advanced by exactly the number of segments delivered")
	for i := 0; i < vTreeK; i++ {
		if i < m.n {
			vAssert(vSeq(m.items[i]) == r0+uint32(i), "delivered segments are the consecutive run starting at the old nextRecv (no gap, no duplicate)")
			d := m.items[i]
			vAssert(d == seg || d == buffered[0] || d == buffered[1], "only segments actually received are delivered")
		}
	}
	// what stays buffered is strictly above the new nextRecv
	b := vModelOf(s.recvBuf)
	for i := 0; i < vTreeK; i++ {
		if i < b.n {
			vAssert(vSeq(b.items[i]) > r1 || vSeq(b.items[i]) >= r1, "nothing at or below nextRecv is left undelivered in the buffer unless it is a gap")
		}
	}
	if q == r0 {
		vAssert(r1 > r0, "the expected segment is delivered and acknowledged")
	}
	if q > r0 && !(k >= 1 && vSeq(buffered[0]) == r0) && !(k >= 2 && vSeq(buffered[1]) == r0) {
		vAssert(r1 == r0, "a segment beyond a gap does not advance the cumulative ack")
	}
}

// ---- H13.2 / H13.3: one pass of the UDP output loop from an arbitrary state ----
//
// Every datagram the pass hands to the underlay - first transmissions from the
// send queue, retransmissions from the send buffer, the stand-alone ack - is
// stamped with unAckSeq == nextRecv (the cumulative in-order receive point,
// never the highest or the buffered sequence number), and a retransmission
// leaves payload, length, fragment marker, type, sequence number and session id
// of the stored segment untouched.
func vStubRTO(r *congestion.RTTStats) time.Duration {
	d := time.Duration(vNondetI64("rto"))
	vAssume(d > 0 && d <= 60*time.Second)
	return d
}
func vStubCwnd(c *congestion.CubicSendAlgorithm) uint32 {
	w := vNondetU32("cwnd")
	vAssume(w <= 4096)
	return w
}
func vStubCubicEvent(c *congestion.CubicSendAlgorithm) uint32 { return 0 }
func vStubBackoff(d time.Duration, base float64, n float64) time.Duration {
	return d
}

func vH_C13_output_packet() {
	isClient := vNondetBool("isClient")
	s := vNewSession(7, isClient, common.PacketTransport)
	s.forwardStateTo(sessionAttached)
	if vNondetBool("established") {
		s.forwardStateTo(sessionEstablished)
	}
	r0 := vNondetU32("nextRecv")
	vAssume(r0 < 0xfffffff0)
	s.nextRecv.Store(r0)
	ns := vNondetU32("nextSend")
	vAssume(ns >= 4 && ns < 0xfffffff0)
	s.nextSend.Store(ns)
	s.ackOnDataRecv.Store(vNondetBool("ackOnDataRecv"))
	s.remoteWindowSize.Store(uint32(vNondetU16("remoteWindow")))
	s.nextRetransmissionTime.Store(vNondetI64("nextRetransmissionTime"))
	s.lastTXTime.Store(vNondetI64("lastTXTime"))
	// a segment received ahead of a gap may sit in the receive buffer
	if vNondetBool("gap") {
		b := vDataSeg("buf", !isClient, 7, 1)
		vAssume(vSeq(b) > r0 && vSeq(b) < r0+8)
		s.recvBuf.Insert(b)
	}
	// one unacknowledged segment in the send buffer, one new segment in the send queue
	var old, fresh *segment
	var oldPayload0, freshPayload0 byte
	if vNondetBool("hasSendBuf") {
		old = vDataSeg("sb", isClient, 7, 1)
		old.metadata.(*dataAckStruct).seq = ns - 3
		old.txCount = vNondetU8("sb.txCount")
		old.ackCount = vNondetU8("sb.ackCount")
		old.txTime = vNondetI64("sb.txTime")
		old.txTimeout = time.Duration(vNondetI64("sb.txTimeout"))
		vAssume(old.txTimeout >= 0 && old.txTimeout <= 60*time.Second && old.txTime >= 0)
		if len(old.payload) > 0 {
			oldPayload0 = old.payload[0]
		}
		s.sendBuf.Insert(old)
	}
	if vNondetBool("hasSendQueue") {
		fresh = vDataSeg("sq", isClient, 7, 1)
		fresh.metadata.(*dataAckStruct).seq = ns - 1
		if len(fresh.payload) > 0 {
			freshPayload0 = fresh.payload[0]
		}
		s.sendQueue.Insert(fresh)
	}
	var oldMD, freshMD dataAckStruct
	var oldLen, freshLen int
	if old != nil {
		oldMD, oldLen = *old.metadata.(*dataAckStruct), len(old.payload)
	}
	if fresh != nil {
		freshMD, freshLen = *fresh.metadata.(*dataAckStruct), len(fresh.payload)
	}
	vOutputs = nil
	s.runOutputOncePacket()
	vAssert(s.nextRecv.Load() == r0, "the output pass does not move the receive point")
	vAssert(len(vOutputs) <= 3, "at most: one retransmission, one new segment, one ack")
	for i := 0; i < 3; i++ {
		if i >= len(vOutputs) {
			break
		}
		o := vOutputs[i]
		if das, ok := o.metadata.(*dataAckStruct); ok {
			vAssert(das.unAckSeq == r0, "every emitted data/ack datagram carries unAckSeq == nextRecv (cumulative, never ahead of a gap)")
			vAssert(das.sessionID == 7, "emitted datagrams belong to this session")
			if o != old && o != fresh {
				vAssert(isAckProtocol(das.Protocol()) && len(o.payload) == 0, "anything else emitted is the stand-alone ack")
			}
		}
	}
	if old != nil {
		md := old.metadata.(*dataAckStruct)
		vAssert(md.seq == oldMD.seq && md.protocol == oldMD.protocol && md.sessionID == oldMD.sessionID && md.fragment == oldMD.fragment &&
			md.payloadLen == oldMD.payloadLen && len(old.payload) == oldLen && (oldLen == 0 || old.payload[0] == oldPayload0),
			"a (re)transmitted segment keeps its type, sequence number, fragment marker, length and payload")
	}
	if fresh != nil {
		md := fresh.metadata.(*dataAckStruct)
		vAssert(md.seq == freshMD.seq && md.protocol == freshMD.protocol && md.sessionID == freshMD.sessionID && md.fragment == freshMD.fragment &&
			md.payloadLen == freshMD.payloadLen && len(fresh.payload) == freshLen && (freshLen == 0 || fresh.payload[0] == freshPayload0),
			"a first transmission keeps the content queued by Write")
	}
	// C02 H2.1: while a client UDP session is still opening, queued DATA is not transmitted
	if isClient && s.isState(sessionAttached) && fresh != nil {
		for i := 0; i < 3; i++ {
			if i < len(vOutputs) {
				vAssert(vOutputs[i] != fresh, "data is deferred until the open-session response arrived")
			}
		}
	}
}
