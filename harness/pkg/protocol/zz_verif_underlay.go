package protocol

import (
	"context"
	"fmt"
	"time"

	"github.com/enfein/mieru/v3/pkg/appctl/appctlpb"
	"github.com/enfein/mieru/v3/pkg/cipher"
	"github.com/enfein/mieru/v3/pkg/common"
	"github.com/enfein/mieru/v3/pkg/protocol/serveruser"
	"github.com/enfein/mieru/v3/pkg/stderror"
)

// ---- ideal AEAD at the cipher.BlockCipher level (DESIGN.md 3.4) ----
//
// Seal appends  [24-byte nonce on the first use in implicit mode] | ciphertext
// (len(plaintext) fresh arbitrary bytes) | 16 fresh arbitrary tag bytes  and
// records (key, nonce bytes, counter, plaintext, ciphertext|tag) in a table
// shared by both directions.  Open succeeds iff its (key, nonce, counter,
// ciphertext|tag) equals a recorded entry and then returns that plaintext:
// exactly the guarantees of an authenticated cipher, nothing of its strength.

const vMaxSeals = 6
const vMaxPT = 34

type vSeal struct {
	used  bool
	key   uint64
	nonce [24]byte
	ctr   uint64
	n     int
	pt    [vMaxPT]byte
	ct    [vMaxPT + 16]byte
}

type vIdealState struct {
	seals [vMaxSeals]vSeal
	nseal int
}

type vIdealCipher struct {
	st       *vIdealState
	key      uint64
	implicit bool
	hasNonce bool
	nonce    [24]byte
	ctr      uint64
	user     string
}

// vIncNonce: +1 on the 192-bit big-endian integer (what cipher.increaseNonce
// does; H9.5).  The EFFECTIVE nonce of the k-th encryption of a direction is
// initial nonce + k - the ideal cipher must identify (N, k) with (N+k, 0), or
// it would be stronger than the real one.
func vIncNonce(n *[24]byte) {
	carry := true
	for j := 23; j >= 0; j-- {
		if carry {
			n[j]++
			carry = n[j] == 0
		}
	}
}

func (c *vIdealCipher) record(nonce *[24]byte, ctr uint64, pt []byte, ct []byte) {
	st := c.st
	vAssume(st.nseal < vMaxSeals)
	// written with the copy builtin and whole-struct stores: no per-byte
	// pointer or bounds obligations arise inside the model itself
	var s vSeal
	s.used, s.key, s.nonce, s.ctr, s.n = true, c.key, *nonce, ctr, len(pt)
	copy(s.pt[:], pt)
	copy(s.ct[:], ct)
	for k := 0; k < vMaxSeals; k++ {
		if k == st.nseal {
			st.seals[k] = s
		}
	}
	st.nseal++
}

func (c *vIdealCipher) Encrypt(dst, plaintext []byte) error {
	need := len(plaintext) + 16
	first := c.implicit && !c.hasNonce
	if !c.implicit || first {
		need += 24
	}
	if cap(dst)-len(dst) < need {
		return fmt.Errorf("destination capacity is too small")
	}
	out := dst[len(dst) : len(dst)+need] // written in place, as the real Seal does
	off := 0
	var nonce [24]byte
	if !c.implicit || first {
		nb := vNondetBytes("nonce", 24)
		copy(nonce[:], nb)
		copy(out[:24], nb)
		off = 24
		if first {
			c.nonce, c.hasNonce, c.ctr = nonce, true, 0
		}
	} else {
		vIncNonce(&c.nonce) // implicit mode: the 192-bit nonce itself counts up, as in the real cipher
		nonce = c.nonce
	}
	ct := vNondetBytes("ct", vMaxPT+16)[:len(plaintext)+16]
	copy(out[off:], ct)
	c.record(&nonce, 0, plaintext, ct)
	return nil
}

func (c *vIdealCipher) open(nonce *[24]byte, ctr uint64, ct []byte) ([]byte, error) {
	if len(ct) < 16 {
		return nil, fmt.Errorf("ciphertext too short")
	}
	n := len(ct)
	var in [vMaxPT + 16]byte
	copy(in[:], ct)
	seals := c.st.seals // value copy: the loop below dereferences nothing
	key, nv := c.key, *nonce
	for k := 0; k < vMaxSeals; k++ {
		s := seals[k]
		if !s.used || s.key != key || s.ctr != ctr || s.n+16 != n || s.nonce != nv {
			continue
		}
		same := true
		for i := 0; i < vMaxPT+16; i++ {
			if i < n && s.ct[i] != in[i] {
				same = false
			}
		}
		if same {
			pt := make([]byte, s.n)
			copy(pt, s.pt[:])
			return pt, nil
		}
	}
	return nil, fmt.Errorf("message authentication failed")
}

func (c *vIdealCipher) Decrypt(ciphertext []byte) ([]byte, error) {
	if c.implicit {
		if !c.hasNonce {
			if len(ciphertext) < 24 {
				return nil, fmt.Errorf("ciphertext is smaller than nonce size")
			}
			copy(c.nonce[:], ciphertext[:24])
			c.hasNonce, c.ctr = true, 0
			ciphertext = ciphertext[24:]
		} else {
			vIncNonce(&c.nonce)
		}
		return c.open(&c.nonce, 0, ciphertext)
	}
	if len(ciphertext) < 24 {
		return nil, fmt.Errorf("ciphertext is smaller than nonce size")
	}
	var n [24]byte
	copy(n[:], ciphertext[:24])
	return c.open(&n, 0, ciphertext[24:])
}

func (c *vIdealCipher) EncryptWithNonce(dst, nonce, plaintext []byte) error {
	need := len(plaintext) + 16
	if len(nonce) != 24 {
		return fmt.Errorf("want nonce size 24")
	}
	if cap(dst)-len(dst) < need {
		return fmt.Errorf("destination capacity is too small")
	}
	out := dst[len(dst) : len(dst)+need]
	ct := vNondetBytes("ct", vMaxPT+16)[:need]
	copy(out, ct)
	var n [24]byte
	copy(n[:], nonce)
	c.record(&n, 0, plaintext, ct)
	return nil
}
func (c *vIdealCipher) DecryptWithNonce(ciphertext, nonce []byte) ([]byte, error) {
	if len(nonce) != 24 {
		return nil, fmt.Errorf("want nonce size 24")
	}
	var n [24]byte
	copy(n[:], nonce)
	return c.open(&n, 0, ciphertext)
}
func (c *vIdealCipher) DecryptStatelessTo(ciphertext, dst []byte) ([]byte, error) {
	return c.Decrypt(ciphertext)
}
func (c *vIdealCipher) NonceSize() int { return 24 }
func (c *vIdealCipher) Overhead() int  { return 16 }
func (c *vIdealCipher) Clone() cipher.BlockCipher {
	d := *c
	return &d
}
func (c *vIdealCipher) CloneStatelessFast() cipher.BlockCipher {
	return &vIdealCipher{st: c.st, key: c.key}
}
func (c *vIdealCipher) SetImplicitNonceMode(enable bool) {
	c.implicit = enable
	if !enable {
		c.hasNonce = false
	}
}
func (c *vIdealCipher) IsStateless() bool                              { return !c.implicit }
func (c *vIdealCipher) BlockContext() cipher.BlockContext              { return cipher.BlockContext{UserName: c.user} }
func (c *vIdealCipher) SetBlockContext(bc cipher.BlockContext)         { c.user = bc.UserName }
func (c *vIdealCipher) NoncePattern() *appctlpb.NoncePattern           { return nil }
func (c *vIdealCipher) SetNoncePattern(pattern *appctlpb.NoncePattern) {}

// ---- padding: contract stub of newPadding (the generator's own properties
// are checked separately): any bytes, any length the options allow ----
var vPadPlan [4]int // lengths to return, consumed in call order
var vPadCalls int
var vPadMaxSeen [4]int

func vStubNewPadding(opts paddingOpts) []byte {
	n := 0
	if vPadCalls < 4 {
		n = vPadPlan[vPadCalls]
		vPadMaxSeen[vPadCalls] = opts.maxLen
	}
	vPadCalls++
	if n > opts.maxLen {
		n = opts.maxLen
	}
	return vNondetBytes("padding", 4)[:n]
}

// server-side discovery succeeded for the sender's user (ideal AEAD meaning of
// "the first segment was sealed with a registered credential")
var vServerRecvTemplate *vIdealCipher

func vStubServerInitRecv(t *StreamUnderlay, encryptedMeta []byte) ([]byte, serveruser.Authentication, error) {
	r := &vIdealCipher{st: vServerRecvTemplate.st, key: vServerRecvTemplate.key, user: vServerRecvTemplate.user}
	r.SetImplicitNonceMode(true)
	pt, err := r.Decrypt(encryptedMeta)
	if err != nil {
		return nil, serveruser.Authentication{}, err
	}
	t.recv = r
	return pt, serveruser.Authentication{}, nil
}

// ---- H1.1 / H9.6 / H14.2(stream) / H16.2: TCP framing ----
//
// A client underlay writes two segments with the real writeOneSegment; the
// bytes it hands to the connection are (a) laid out as documented -
//   [nonce 24, first segment only] | Seal(metadata 32)+16 | padding1 | Seal(payload)+16 | padding2
// with the lengths recorded in the metadata - and (b) parsed by a server
// underlay's real readOneSegment into the same segments, consuming exactly the
// bytes written (so the next segment starts aligned) and advancing the nonce
// counters in step.
func vTCPFrame(session bool, n1, n2 int, p1, p2 int) {
	st := &vIdealState{}
	block := &vIdealCipher{st: st, key: 1, user: "alice"}
	block.SetImplicitNonceMode(true)
	vServerRecvTemplate = block
	cconn := &vFakeConn{}
	client := &StreamUnderlay{baseUnderlay: *newBaseUnderlay(true, 1400, nil), conn: cconn, block: block}
	mk := func(tag string, n int, seq uint32) *segment {
		pl := vNondetBytes(tag, 2)[:n]
		if session {
			return &segment{metadata: &sessionStruct{baseStruct: baseStruct{protocol: uint8(openSessionRequest)}, sessionID: 7, seq: seq, payloadLen: uint16(n)}, payload: pl, transport: common.StreamTransport}
		}
		return &segment{metadata: &dataAckStruct{baseStruct: baseStruct{protocol: uint8(dataClientToServer)}, sessionID: 7, seq: seq, unAckSeq: vNondetU32(tag + ".unack"),
			windowSize: vNondetU16(tag + ".win"), fragment: vNondetU8(tag + ".frag"), payloadLen: uint16(n)}, payload: pl, transport: common.StreamTransport}
	}
	seg1, seg2 := mk("pl1", n1, 0), mk("pl2", n2, 1)
	vPadPlan, vPadCalls = [4]int{p1, p2, p2, p1}, 0
	e1 := client.writeOneSegment(seg1)
	w1 := len(cconn.out)
	e2 := client.writeOneSegment(seg2)
	vAssert(e1 == nil && e2 == nil, "writeOneSegment succeeds")
	// (a) documented layout, lengths as in the metadata the sender recorded
	pre1, suf1, pre2, suf2 := 0, 0, 0, 0
	if session {
		suf1, suf2 = int(seg1.metadata.(*sessionStruct).suffixLen), int(seg2.metadata.(*sessionStruct).suffixLen)
	} else {
		d1, d2 := seg1.metadata.(*dataAckStruct), seg2.metadata.(*dataAckStruct)
		pre1, suf1, pre2, suf2 = int(d1.prefixLen), int(d1.suffixLen), int(d2.prefixLen), int(d2.suffixLen)
	}
	enc := func(n int) int {
		if n == 0 {
			return 0
		}
		return n + 16
	}
	vAssert(w1 == 24+48+pre1+enc(n1)+suf1, "first segment: nonce 24 + metadata 32+16 + padding1 + payload+16 + padding2")
	vAssert(len(cconn.out)-w1 == 48+pre2+enc(n2)+suf2, "later segments carry no nonce")
	vAssert(pre1 <= 255 && suf1 <= 255 && pre1 <= vPadMaxSeen[0], "padding lengths fit their uint8 fields and the configured maxima")
	vAssert(st.nseal == 2+b2i(n1 > 0)+b2i(n2 > 0), "one encryption per metadata and per non-empty payload")
	// (b) the peer's real parser returns the same segments
	sconn := &vFakeConn{in: cconn.out}
	server := &StreamUnderlay{baseUnderlay: *newBaseUnderlay(false, 1400, nil), conn: sconn}
	g1, r1 := server.readOneSegment()
	vAssert(r1 == nil && g1 != nil, "the first segment is accepted")
	vAssert(sconn.pos == w1, "the parser consumed exactly the first segment")
	g2, r2 := server.readOneSegment()
	vAssert(r2 == nil && g2 != nil, "the second segment is accepted (nonce counters in step)")
	vAssert(sconn.pos == len(cconn.out), "the parser consumed exactly the bytes written")
	if g1 != nil && g2 != nil {
		vSameSeg(g1, seg1, n1)
		vSameSeg(g2, seg2, n2)
	}
}

func b2i(b bool) int {
	if b {
		return 1
	}
	return 0
}

func vSameSeg(got, want *segment, n int) {
	vAssert(got.Protocol() == want.Protocol(), "same segment type")
	gs, _ := got.Seq()
	ws, _ := want.Seq()
	gid, _ := got.SessionID()
	vAssert(gs == ws && gid == 7, "same sequence number and session id")
	vAssert(len(got.payload) == n, "same payload length")
	for i := 0; i < n; i++ {
		vAssert(got.payload[i] == want.payload[i], "same payload bytes")
	}
	if gd, ok := got.metadata.(*dataAckStruct); ok {
		wd := want.metadata.(*dataAckStruct)
		vAssert(gd.unAckSeq == wd.unAckSeq && gd.windowSize == wd.windowSize && gd.fragment == wd.fragment, "same ack, window and fragment fields")
	}
}

func vH_C01_tcp_frame_data() {
	for n1 := 0; n1 <= 2; n1++ {
		vTCPFrame(false, n1, 2-n1, n1, 1)
	}
}

func vH_C01_tcp_frame_session() {
	for n1 := 0; n1 <= 2; n1++ {
		vTCPFrame(true, n1, 2-n1, 0, n1)
	}
}

// ---- H5.1: no credential => silence (TCP) ----
//
// A server underlay whose peer knows no registered credential (ideal AEAD: the
// seal table holds nothing the peer could have produced, so discovery fails)
// receives an arbitrary byte string of any length 0..80 (the first read needs
// 72): the event loop returns, nothing was written, no session exists, nothing
// was handed to the application.
func vStubServerInitRecvFail(t *StreamUnderlay, encryptedMeta []byte) ([]byte, serveruser.Authentication, error) {
	return nil, serveruser.Authentication{}, fmt.Errorf("no registered user can decrypt the first segment")
}

func vH_C05_tcp_silence() {
	l := vNondetInt("len")
	vAssume(l >= 0 && l <= 80)
	in := vNondetBytes("in", 80)[:l]
	conn := &vFakeConn{in: in}
	server := &StreamUnderlay{baseUnderlay: *newBaseUnderlay(false, 1400, nil), conn: conn, sessionCleanTicker: time.NewTicker(sessionCleanInterval)}
	err := server.RunEventLoop(context.Background())
	vAssert(err != nil, "the event loop ends with an error")
	vAssert(conn.writes == 0 && len(conn.out) == 0, "not a single byte is sent in reply")
	vAssert(server.SessionCount() == 0, "no session is created")
	vAssert(len(server.readySessions) == 0, "nothing is handed to the proxy application")
	vAssert(server.recv == nil && server.send == nil, "no cipher state is established")
	vAssert(conn.closed, "the connection is closed")
}

// ---- H4.1: tampering never changes what is read (TCP prefix property) ----
//
// A client writes one genuine data segment (table: its two seals). The server
// then parses an ARBITRARY byte string of the same length. If readOneSegment
// returns a segment at all, it is the genuine one: same type, ids, sequence,
// ack fields, payload.  Padding bytes never flow into the result.
func vH_C04_tcp_tamper() {
	st := &vIdealState{}
	block := &vIdealCipher{st: st, key: 1, user: "alice"}
	block.SetImplicitNonceMode(true)
	vServerRecvTemplate = block
	cconn := &vFakeConn{}
	client := &StreamUnderlay{baseUnderlay: *newBaseUnderlay(true, 1400, nil), conn: cconn, block: block}
	pl := vNondetBytes("pl", 2)
	seg := &segment{metadata: &dataAckStruct{baseStruct: baseStruct{protocol: uint8(dataClientToServer)}, sessionID: 7, seq: vNondetU32("seq"), unAckSeq: vNondetU32("unack"),
		windowSize: vNondetU16("win"), fragment: vNondetU8("frag"), payloadLen: 2}, payload: pl, transport: common.StreamTransport}
	vPadPlan, vPadCalls = [4]int{1, 1, 0, 0}, 0
	vAssert(client.writeOneSegment(seg) == nil, "genuine write succeeds")
	n := len(cconn.out) // 24+48+1+18+1
	wire := vNondetBytes("wire", 92)
	vAssume(n == 92)
	sconn := &vFakeConn{in: wire}
	server := &StreamUnderlay{baseUnderlay: *newBaseUnderlay(false, 1400, nil), conn: sconn}
	got, err := server.readOneSegment()
	if err == nil && got != nil {
		vSameSeg(got, seg, 2)
		// and the authenticated parts of the stream are the genuine bytes
		for i := 0; i < 72; i++ {
			vAssert(wire[i] == cconn.out[i], "accepted => nonce, metadata ciphertext and tag are the genuine bytes")
		}
	} else if err != nil {
		et := stderror.GetErrorType(err)
		vAssert(et == stderror.CRYPTO_ERROR || et == stderror.PROTOCOL_ERROR || et == stderror.NETWORK_ERROR || et == stderror.REPLAY_ERROR, "a rejected stream yields a typed error (the event loop would otherwise panic)")
	}
}

// ---- H4.1p: TCP prefix property over two genuine segments ----
//
// A client writes two data segments A then B (one byte each, no padding).
// The server parses an ARBITRARY byte string of the length of the first
// segment's wire image (nonce + metadata + payload).  The first segment the
// receiver returns, if any, must be A - never B: the data delivered is a
// prefix of the data sent.
//
// region of known finding C04-n: the 24 nonce bytes on the wire differ from
// the genuine ones (the initial nonce travels in the clear and is not bound to
// anything the receiver checks: rewriting it to N+1 and deleting A's bytes
// makes B authenticate as the first segment).
func vTCPPrefix(onlyRegion bool) {
	st := &vIdealState{}
	block := &vIdealCipher{st: st, key: 1, user: "alice"}
	block.SetImplicitNonceMode(true)
	vServerRecvTemplate = block
	cconn := &vFakeConn{}
	client := &StreamUnderlay{baseUnderlay: *newBaseUnderlay(true, 1400, nil), conn: cconn, block: block}
	mk := func(tag string, seq uint32) *segment {
		return &segment{metadata: &dataAckStruct{baseStruct: baseStruct{protocol: uint8(dataClientToServer)}, sessionID: 7, seq: seq, payloadLen: 1},
			payload: vNondetBytes(tag, 1), transport: common.StreamTransport}
	}
	a, b := mk("A", 5), mk("B", 6)
	vPadPlan, vPadCalls = [4]int{0, 0, 0, 0}, 0
	vAssert(client.writeOneSegment(a) == nil && client.writeOneSegment(b) == nil, "genuine writes succeed")
	vAssume(len(cconn.out) == 24+65+65)
	wire := vNondetBytes("wire", 89)
	nonceGenuine := true
	for i := 0; i < 24; i++ {
		if wire[i] != cconn.out[i] {
			nonceGenuine = false
		}
	}
	if onlyRegion {
		vAssume(!nonceGenuine)
	} else if vKnown("C04-n") {
		vAssume(nonceGenuine)
	}
	sconn := &vFakeConn{in: wire}
	server := &StreamUnderlay{baseUnderlay: *newBaseUnderlay(false, 1400, nil), conn: sconn}
	got, err := server.readOneSegment()
	if err == nil && got != nil {
		gs, _ := got.Seq()
		vAssert(gs == 5, "the first segment delivered is the first segment sent (the data read is a prefix of the data written)")
		vAssert(len(got.payload) == 1 && got.payload[0] == a.payload[0], "and carries its payload")
	}
}

func vH_C04_tcp_prefix()               { vTCPPrefix(false) }
func vH_C04_tcp_prefix_nonce_rewrite() { vTCPPrefix(true) }
