package serveruser

// Exported helper for harnesses of package protocol (overlay only): a pending
// authentication of user `name` in a fresh one-user generation without a
// source cache - what Registry.Discover hands to the underlay on success.
func VNewAuthentication(name string) Authentication {
	st := &state{users: []user{{id: 1, name: name, policy: Policy{name: name}}}}
	return Authentication{userID: 1, policy: Policy{name: name}, origin: matchRegistryHint, generation: st}
}
