package serveruser

import (
	"sync/atomic"

	"github.com/enfein/mieru/v3/pkg/appctl/appctlpb"
	"github.com/enfein/mieru/v3/pkg/cipher"
)

// C07 - sessions are attributed to the authenticating user despite caches and
// reloads.
//
// The harnesses run the REAL tryState / discoverUser / source cache code.  The
// cryptography is replaced by its outcome (ideal AEAD): for every registered
// user u the solver chooses
//   hint[u]  - does the segment's user hint name u (cipher.CheckUserFromHint)
//   dec[u]   - does u's credential open the segment (StatelessDecryptor.TryDecrypt)
// independently, which includes shared credentials (several dec[u] true) and
// hint collisions (several hint[u] true).  The source-user cache is replaced
// by an ARBITRARY lookup result (any 16 ids incl. 0, stale, duplicate and
// out-of-range ones, any count) - a superset of every reachable cache state.

const vNU = 3 // registered users in the harness

type vBlock struct {
	user int
	ctx  cipher.BlockContext
}

func (b *vBlock) Encrypt(dst, plaintext []byte) error                  { return nil }
func (b *vBlock) EncryptWithNonce(dst, nonce, plaintext []byte) error { return nil }
func (b *vBlock) Decrypt(ciphertext []byte) ([]byte, error)           { return nil, nil }
func (b *vBlock) DecryptWithNonce(ciphertext, nonce []byte) ([]byte, error) {
	return nil, nil
}
func (b *vBlock) DecryptStatelessTo(ciphertext, dst []byte) ([]byte, error) { return nil, nil }
func (b *vBlock) NonceSize() int                                            { return 24 }
func (b *vBlock) Overhead() int                                             { return 16 }
func (b *vBlock) Clone() cipher.BlockCipher                                 { return b }
func (b *vBlock) CloneStatelessFast() cipher.BlockCipher                    { return b }
func (b *vBlock) SetImplicitNonceMode(enable bool)                          {}
func (b *vBlock) IsStateless() bool                                         { return true }
func (b *vBlock) BlockContext() cipher.BlockContext                         { return b.ctx }
func (b *vBlock) SetBlockContext(bc cipher.BlockContext)                    { b.ctx = bc }
func (b *vBlock) NoncePattern() *appctlpb.NoncePattern                      { return nil }
func (b *vBlock) SetNoncePattern(pattern *appctlpb.NoncePattern)            {}

type vWorld struct {
	hint   [vNU]bool
	dec    [vNU]bool
	tried  [vNU]int
	decs   [vNU]*cipher.StatelessDecryptor
	ids    [sourceUserCacheUsers]uint32
	count  int
	lookups int
}

var vW *vWorld

// redirect target of cipher.CheckUserFromHint
func vStubHint(name []byte, nonce []byte) bool {
	r := false
	for u := 0; u < vNU; u++ {
		if len(name) == 1 && name[0] == byte('a'+u) {
			r = vW.hint[u]
		}
	}
	return r
}

// redirect target of (*cipher.StatelessDecryptor).TryDecrypt
func vStubTryDecrypt(d *cipher.StatelessDecryptor, ciphertext, dst []byte) (cipher.BlockCipher, []byte, error) {
	for u := 0; u < vNU; u++ {
		if d == vW.decs[u] {
			vW.tried[u]++
			if vW.dec[u] {
				return &vBlock{user: u}, append(dst, make([]byte, metadataLength)...), nil
			}
			return nil, nil, vErr
		}
	}
	return nil, nil, vErr
}

type vError struct{}

func (vError) Error() string { return "unable to decrypt" }

var vErr error = vError{}

// redirect target of (*sourceUserCache).lookup: an arbitrary result
func vStubLookup(c *sourceUserCache, key [16]byte) ([sourceUserCacheUsers]uint32, int) {
	vW.lookups++
	return vW.ids, vW.count
}

func vNewState(withCache bool) *state {
	st := &state{}
	for u := 0; u < vNU; u++ {
		d := &cipher.StatelessDecryptor{}
		vW.decs[u] = d
		st.users = append(st.users, user{id: uint32(u + 1), name: string([]byte{byte('a' + u)}), decryptor: d,
			policy: Policy{name: string([]byte{byte('a' + u)})}})
	}
	if withCache {
		st.cache = &sourceUserCache{}
	}
	return st
}

func vNewWorld(maxCached int) {
	vW = &vWorld{}
	for u := 0; u < vNU; u++ {
		vW.hint[u] = vNondetBool("hint")
		vW.dec[u] = vNondetBool("dec")
	}
	vW.count = vNondetInt("cached.count")
	vAssume(vW.count >= 0 && vW.count <= maxCached)
	for i := 0; i < sourceUserCacheUsers; i++ {
		if i < maxCached {
			vW.ids[i] = vNondetU32("cached.id")
			vAssume(vW.ids[i] <= vNU+2) // 0, valid ids, and ids beyond the registry
		}
	}
}

func vCheckOutcome(res discoveryResult, mandatory bool) {
	anyDec, anyHintDec := false, false
	for u := 0; u < vNU; u++ {
		if vW.dec[u] {
			anyDec = true
			if vW.hint[u] {
				anyHintDec = true
			}
		}
		vAssert(vW.tried[u] <= 1, "each user's credential is tried at most once")
	}
	if res.block != nil {
		vAssert(res.userID >= 1 && res.userID <= vNU, "attributed user id is a registered one")
		u := int(res.userID) - 1
		vAssert(vW.dec[u], "the attributed user's credential authenticates the segment")
		vAssert(res.block.(*vBlock).user == u, "the cipher handed on is the attributed user's")
		vAssert(res.userContext.UserName == string([]byte{byte('a' + u)}), "user context names the attributed user")
		vAssert(res.policy.name == res.userContext.UserName, "policy snapshot is the attributed user's")
		if anyHintDec {
			vAssert(vW.hint[u], "a user named by the hint that authenticates is preferred")
		}
		if mandatory {
			vAssert(vW.hint[u], "hint mandatory => attributed user is named by the hint")
		}
		hintOrigin := res.origin == matchCachedHint || res.origin == matchRegistryHint
		vAssert(hintOrigin == vW.hint[u], "match origin tells whether the hint named the user")
	} else {
		vAssert(res.userID == 0, "rejected => no user id")
	}
	if !anyDec {
		vAssert(res.block == nil, "no registered credential authenticates => rejected")
	}
	if mandatory && !anyHintDec {
		vAssert(res.block == nil, "hint mandatory and no hinted user authenticates => rejected")
	}
	if anyHintDec || (anyDec && !mandatory) {
		vAssert(res.block != nil, "an admissible authenticating user exists => accepted")
	}
}

func vTryStateHarness(maxCached int) {
	vNewWorld(maxCached)
	st := vNewState(true)
	mandatory := vNondetBool("mandatory")
	srcValid := vNondetBool("source.valid")
	meta := vNondetBytes("meta", 24+32+16)
	var src Source
	src.valid = srcValid
	res := tryState(st, meta, src, mandatory)
	vCheckOutcome(res, mandatory)
	if !srcValid {
		vAssert(vW.lookups == 0, "no source address => the cache is not consulted")
	}

	// cache independence: with distinct credentials (at most one user
	// authenticates) the outcome equals that of a run with an empty cache
	ndec := 0
	for u := 0; u < vNU; u++ {
		if vW.dec[u] {
			ndec++
		}
		vW.tried[u] = 0
	}
	vW.count = 0
	res2 := tryState(st, meta, src, mandatory)
	if ndec <= 1 {
		vAssert((res.block == nil) == (res2.block == nil) && res.userID == res2.userID, "distinct credentials: outcome independent of the source cache")
	}
	// in general: the hint class of the attributed user is cache independent
	if res.block != nil && res2.block != nil {
		vAssert(vW.hint[res.userID-1] == vW.hint[res2.userID-1], "hint preference independent of the source cache")
	}
	vAssert((res.block == nil) == (res2.block == nil), "accept/reject independent of the source cache")
}

func vH_C07_trystate()      { vTryStateHarness(3) }
func vH_C07_trystate_full() { vTryStateHarness(sourceUserCacheUsers) }

// H7.3 reload: discoverUser with requireCurrent while another goroutine
// publishes new generations (the afterAttempt hook of the real function is the
// environment step).  The result belongs to the generation that is current
// when discoverUser returns, and was decided on that generation's users.
func vH_C07_reload() {
	vNewWorld(2)
	var pub atomic.Pointer[state]
	var mand atomic.Bool
	mand.Store(vNondetBool("mandatory"))
	g0 := vNewState(true)
	pub.Store(g0)
	g1 := &state{cache: &sourceUserCache{}}
	// generation 1: user "a" was removed, "b" and "c" remain (ids renumbered)
	for u := 1; u < vNU; u++ {
		g1.users = append(g1.users, user{id: uint32(u), name: string([]byte{byte('a' + u)}), decryptor: vW.decs[u], policy: Policy{name: string([]byte{byte('a' + u)})}})
	}
	publishes := 0
	step := func(s *state) {
		if publishes == 0 && vNondetBool("env.publish") {
			publishes++
			old := pub.Swap(g1)
			old.cache.retire()
		}
	}
	meta := vNondetBytes("meta", 24+32+16)
	var src Source
	src.valid = vNondetBool("source.valid")
	requireCurrent := vNondetBool("requireCurrent")
	res, err := discoverUser(&pub, &mand, meta, src, requireCurrent, step)
	if err != nil {
		vAssert(res.block == nil, "error => no cipher")
		return
	}
	vAssert(res.block != nil && res.generation != nil, "success carries cipher and generation")
	if requireCurrent {
		vAssert(res.generation == pub.Load(), "requireCurrent: the result belongs to the generation current at return")
	}
	// the attributed user is a member of the returned generation and authenticates
	u := userByID(res.generation, res.userID)
	vAssert(u != nil, "attributed id is valid in the returned generation")
	vAssert(u.name == res.userContext.UserName && u.name == res.policy.name, "identity, context and policy agree")
	vAssert(vW.dec[int(u.name[0]-'a')], "attributed user's credential authenticates")
	if requireCurrent && publishes == 1 {
		vAssert(u.name != "a", "after the reload completed, the removed user is not authenticated")
	}
	// recording into a retired generation is a no-op
	a := res.authentication(src)
	gen := a.generation
	a.Record()
	vAssert(a.generation == nil, "Record consumes the pending authentication")
	if gen == g0 && publishes == 1 {
		vAssert(g0.cache.loadTable() == nil, "retired generation's cache stays detached")
	}
}

// ---- H7.2 source-user cache: one step from an arbitrary bucket ----
//
// All keys are mapped to one bucket (redirect of sourceUserCacheBucketIndex to
// a constant: buckets are alike, and colliding keys - the interesting case -
// are thereby the rule).  The bucket holds up to four entries with arbitrary
// distinct keys, arbitrary activity ticks and arbitrary user slots.

func vStubBucketIndex(key [16]byte) uint32 { return 5 }

var vNowTick uint32

func vTick() uint32 { return vNowTick }

func vKey(b byte) [16]byte {
	var k [16]byte
	k[0] = b
	k[15] = 1
	return k
}

// vArbitraryCache builds a cache whose single used bucket is arbitrary: nslots
// user slots per entry are symbolic, the rest empty.
func vArbitraryCache(nslots int) (*sourceUserCache, *sourceUserCacheTable) {
	c := newSourceUserCacheWithTick(nil, vTick)
	tb := c.loadTable()
	b := &tb.buckets[5]
	var keys [sourceUserCacheWays]byte
	var present [sourceUserCacheWays]bool
	for w := 0; w < sourceUserCacheWays; w++ {
		present[w] = vNondetBool("way.present")
		keys[w] = vNondetU8("way.key")
		vAssume(keys[w] < 6)
		for v := 0; v < w; v++ {
			vAssume(!(present[w] && present[v]) || keys[w] != keys[v]) // representation invariant: one way per key
		}
		if present[w] {
			e := &sourceUserCacheEntry{key: vKey(keys[w])}
			e.lastActive.Store(vNondetU32("way.lastActive"))
			for i := 0; i < sourceUserCacheUsers; i++ {
				if i < nslots {
					e.users[i].Store(vNondetU64("way.user"))
				}
			}
			b.ways[w].Store(e)
		}
	}
	return c, tb
}

// vRefLive: is uid a live (non-expired) member of key's entry at tick now?
func vRefLive(tb *sourceUserCacheTable, key [16]byte, now uint32, uid uint32) bool {
	b := &tb.buckets[5]
	for w := 0; w < sourceUserCacheWays; w++ {
		e := b.ways[w].Load()
		if e == nil || e.key != key {
			continue
		}
		if now-e.lastActive.Load() >= sourceUserCacheLifeSeconds {
			return false
		}
		for i := 0; i < sourceUserCacheUsers; i++ {
			p := e.users[i].Load()
			id, seen := uint32(p>>32), uint32(p)
			if id == uid && id != 0 && now-seen < sourceUserCacheLifeSeconds {
				return true
			}
		}
		return false
	}
	return false
}

func vContains(ids [sourceUserCacheUsers]uint32, n int, uid uint32) bool {
	for i := 0; i < sourceUserCacheUsers; i++ {
		if i < n && ids[i] == uid {
			return true
		}
	}
	return false
}

func vCacheLookupHarness(nslots int) {
	c, tb := vArbitraryCache(nslots)
	vNowTick = vNondetU32("now")
	kb := vNondetU8("lookup.key")
	vAssume(kb < 6)
	key := vKey(kb)
	ids, n := c.lookup(key)
	vAssert(n >= 0 && n <= sourceUserCacheUsers, "lookup count within the result array")
	probe := vNondetU32("probe.uid")
	vAssume(probe != 0)
	// soundness and completeness for an arbitrary probe id
	vAssert(vContains(ids, n, probe) == vRefLive(tb, key, vNowTick, probe), "lookup returns exactly the live ids recorded for this source (none of another source, none expired)")
	vAssert(!vContains(ids, n, 0), "the reserved id 0 is never returned")
	pi, pj := vNondetInt("dup.i"), vNondetInt("dup.j")
	vAssume(pj >= 0 && pj < pi && pi < sourceUserCacheUsers)
	vAssert(!(pi < n) || ids[pi] != ids[pj], "no id is returned twice (any pair of positions)")
}

func vH_C07_cache_lookup()      { vCacheLookupHarness(3) }
func vH_C07_cache_lookup_full() { vCacheLookupHarness(sourceUserCacheUsers) }

func vCacheRecordHarness(nslots int) {
	c, tb := vArbitraryCache(nslots)
	vNowTick = vNondetU32("now")
	kb := vNondetU8("record.key")
	ob := vNondetU8("other.key")
	vAssume(kb < 6 && ob < 6 && ob != kb)
	key, other := vKey(kb), vKey(ob)
	uid := vNondetU32("record.uid")
	probe := vNondetU32("probe.uid")
	vAssume(probe != 0)
	otherBefore := vRefLive(tb, other, vNowTick, probe)
	selfBefore := vRefLive(tb, key, vNowTick, probe)
	c.recordAuthenticated(key, uid)
	if uid != 0 {
		vAssert(vRefLive(tb, key, vNowTick, uid), "a recorded user is live for its source right afterwards")
		ids, n := c.lookup(key)
		vAssert(vContains(ids, n, uid), "lookup after record returns the recorded user")
	} else {
		vAssert(vRefLive(tb, key, vNowTick, probe) == selfBefore, "the reserved id 0 is ignored")
	}
	// recording for one source never ADDS an id to another source
	vAssert(!vRefLive(tb, other, vNowTick, probe) || otherBefore, "recording for one source never adds a user to another source")
	// representation invariant preserved: one way per key
	b := &tb.buckets[5]
	for w := 0; w < sourceUserCacheWays; w++ {
		for v := 0; v < w; v++ {
			ew, ev := b.ways[w].Load(), b.ways[v].Load()
			vAssert(ew == nil || ev == nil || ew.key != ev.key, "at most one way per source key")
		}
	}
	if probe != uid && selfBefore {
		// other live users of the same source survive unless all 16 slots were live
		full := true
		for w := 0; w < sourceUserCacheWays; w++ {
			e := b.ways[w].Load()
			if e != nil && e.key == key {
				for i := 0; i < sourceUserCacheUsers; i++ {
					p := e.users[i].Load()
					if uint32(p>>32) == 0 {
						full = false
					}
				}
			}
		}
		vAssert(full || vRefLive(tb, key, vNowTick, probe), "recording a user does not drop another live user of the source while a free slot exists")
	}
}

func vH_C07_cache_record()      { vCacheRecordHarness(2) }
func vH_C07_cache_record_full() { vCacheRecordHarness(sourceUserCacheUsers) }
