package serveruser

import (
	"fmt"

	"github.com/enfein/mieru/v3/pkg/cipher"
	"github.com/enfein/mieru/v3/pkg/metrics"
)

// H7.1 tryState: attribution to a user whose credential authenticates the
// first segment, preferring hinted users, independent of the source cache.
//
// Three registered users (dense ids 1..3).  Per user: does the segment's hint
// name it (arbitrary boolean: hint collisions and shared names included) and
// does its credential decrypt the segment (arbitrary boolean: shared
// credentials included).  The source-user cache lookup returns an ARBITRARY
// array of ids and count - stale, zero, duplicate and out-of-range ids
// included, a superset of every reachable cache state.

const vUsers = 3
const vCacheMax = 4

var vHint, vDec [vUsers]bool
var vDecCalls [vUsers]int
var vDecryptors [vUsers]*cipher.StatelessDecryptor
var vCachedIDs [sourceUserCacheUsers]uint32
var vCachedCount int
var vUseCache bool

func vStubCheckUserFromHint(user, nonce []byte) bool {
	// users are named "a", "b", "c"
	return vHint[int(user[0]-'a')]
}

func vStubTryDecrypt(d *cipher.StatelessDecryptor, ciphertext, dst []byte) (cipher.BlockCipher, []byte, error) {
	for i := 0; i < vUsers; i++ {
		if d == vDecryptors[i] {
			vDecCalls[i]++
			if vDec[i] {
				return &vBlock{user: i}, make([]byte, metadataLength), nil
			}
		}
	}
	return nil, nil, fmt.Errorf("unable to decrypt")
}

func vStubCacheLookup(c *sourceUserCache, key [16]byte) ([sourceUserCacheUsers]uint32, int) {
	if !vUseCache {
		return [sourceUserCacheUsers]uint32{}, 0
	}
	return vCachedIDs, vCachedCount
}

func vStubRegisterMetric(groupName, metricName string, metricType metrics.MetricType) metrics.Metric {
	return &metrics.Counter{}
}

// vBlock is a cipher.BlockCipher that only remembers whose credential opened it.
type vBlock struct {
	cipher.BlockCipher
	user int
}

func vState() *state {
	st := &state{cache: &sourceUserCache{}}
	for i := 0; i < vUsers; i++ {
		vDecryptors[i] = new(cipher.StatelessDecryptor)
		st.users = append(st.users, user{id: uint32(i + 1), name: string([]byte{byte('a' + i)}), decryptor: vDecryptors[i], policy: Policy{name: string([]byte{byte('a' + i)})}})
	}
	return st
}

func vH_C07_trystate() {
	for i := 0; i < vUsers; i++ {
		vHint[i], vDec[i], vDecCalls[i] = vNondetBool("hint"), vNondetBool("dec"), 0
	}
	vCachedCount = int(vNondetU8("cache.count"))
	vAssume(vCachedCount <= vCacheMax)
	for i := 0; i < vCacheMax; i++ {
		vCachedIDs[i] = uint32(vNondetU8("cache.id")) // 0 (empty), 1..3, or out of range
	}
	mandatory := vNondetBool("hintMandatory")
	st := vState()
	meta := make([]byte, 72)
	src := Source{valid: true}
	vUseCache = true
	r := tryState(st, meta, src, mandatory)
	accepted := r.block != nil
	anyDec, anyHintDec, nDec := false, false, 0
	for i := 0; i < vUsers; i++ {
		if vDec[i] {
			anyDec = true
			nDec++
			if vHint[i] {
				anyHintDec = true
			}
		}
		vAssert(vDecCalls[i] <= 1, "each user's credential is tried at most once")
	}
	if accepted {
		vAssert(r.userID >= 1 && r.userID <= vUsers, "the attributed user is a registered user")
		u := int(r.userID) - 1
		vAssert(vDec[u], "the attributed user's credential authenticates the segment")
		vAssert(r.block.(*vBlock).user == u && r.userContext.UserName == st.users[u].name && r.policy.Name() == st.users[u].name, "cipher, user context and policy are those of the attributed user")
		if anyHintDec {
			vAssert(vHint[u], "a user named by the hint is preferred")
		}
		if mandatory {
			vAssert(vHint[u], "with mandatory hints only a hinted user is accepted")
		}
	} else {
		if mandatory {
			vAssert(!anyHintDec, "rejected under mandatory hints => no hinted user authenticates")
		} else {
			vAssert(!anyDec, "rejected => no registered credential authenticates the segment")
		}
	}
	// cache independence when at most one user can authenticate
	for i := 0; i < vUsers; i++ {
		vDecCalls[i] = 0
	}
	vUseCache = false
	r2 := tryState(st, meta, Source{}, mandatory)
	if nDec <= 1 {
		vAssert((r2.block != nil) == accepted && r2.userID == r.userID, "with distinct credentials outcome and attributed user do not depend on the source cache")
	}
}
