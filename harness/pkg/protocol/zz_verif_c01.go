package protocol

import (
	"github.com/enfein/mieru/v3/pkg/common"
	"github.com/enfein/mieru/v3/pkg/metrics"
)

// H1.3 one Session.Read from an arbitrary receive state: the bytes returned are
// the next n bytes of the stream  unreadBuf | payload(min seq) | payload(next) ...
// with n >= 1 whenever a byte was available; the rest stays queued in order;
// nothing is skipped, duplicated or reordered.
func vH_C01_read_step() {
	isClient := vNondetBool("isClient")
	tr := common.StreamTransport
	if vNondetBool("packet") {
		tr = common.PacketTransport
	}
	s := vNewSession(7, isClient, tr)
	s.forwardStateTo(sessionAttached)
	s.forwardStateTo(sessionEstablished)
	// arbitrary state
	var stream [7]byte // ghost: the bytes the application has yet to read, in order
	total := 0
	ul := int(vNondetU8("unread.len"))
	vAssume(ul <= 3)
	if ul > 0 {
		ub := vNondetBytes("unread", 3)[:ul]
		s.unreadBuf = ub
		for i := 0; i < 3; i++ {
			if i < ul {
				stream[total] = ub[i]
				total++
			}
		}
	}
	k := int(vNondetU8("queued"))
	vAssume(k <= 2)
	base := vNondetU32("seq0")
	vAssume(base < 1<<31)
	for j := 0; j < 2; j++ {
		if j < k {
			seg := vDataSeg("q", !isClient, 7, 2)
			seg.metadata.(*dataAckStruct).seq = base + uint32(j)
			if j == 0 && vNondetBool("q.session") {
				// the head may be a session segment carrying payload (docs/protocol.md:
				// every session segment may carry up to 1024 bytes): an open-session
				// response at a client, an open-session request at a server
				p := uint8(openSessionRequest)
				if isClient {
					p = uint8(openSessionResponse)
				}
				seg = &segment{metadata: &sessionStruct{baseStruct: baseStruct{protocol: p}, sessionID: 7, seq: base, payloadLen: uint16(len(seg.payload))}, payload: seg.payload, transport: tr}
			}
			s.recvQueue.Insert(seg)
			for i := 0; i < 2; i++ {
				if i < len(seg.payload) {
					stream[total] = seg.payload[i]
					total++
				}
			}
		}
	}
	vAssume(total > 0) // a byte is available (the blocking case is C03/C15)
	bl := int(vNondetU8("buf.len"))
	vAssume(bl <= 4)
	b := make([]byte, 4)[:bl]
	acct := &vCountMetric{}
	if !isClient {
		s.uploadBytes = acct // a server session accounts what it hands to its application (C19 H19.2)
	}
	n, err := s.Read(b)
	vAssert(err == nil, "Read with data available does not fail")
	if !isClient {
		vAssert(acct.added == int64(n) && acct.calls <= 1, "every byte a server session hands to its application is counted once against the session's user (also bytes served from the left-over buffer)")
	}
	if bl == 0 {
		vAssert(n == 0, "zero-length read returns 0")
	} else {
		vAssert(n >= 1 && n <= bl && n <= total, "at least one byte, at most the buffer and what is available")
	}
	for i := 0; i < 4; i++ {
		if i < n {
			vAssert(b[i] == stream[i], "bytes are delivered in stream order, unaltered")
		}
	}
	// what is left is exactly stream[n:], in order: unreadBuf first, then the queue
	pos := n
	for i := 0; i < 3; i++ {
		if i < len(s.unreadBuf) {
			vAssert(pos < total && s.unreadBuf[i] == stream[pos], "left-over bytes stay at the head of the stream")
			pos++
		}
	}
	m := vModelOf(s.recvQueue)
	for j := 0; j < vTreeK; j++ {
		if j < m.n {
			for i := 0; i < 2; i++ {
				if i < len(m.items[j].payload) {
					vAssert(pos < total && m.items[j].payload[i] == stream[pos], "queued segments keep their order and content")
					pos++
				}
			}
		}
	}
	vAssert(pos == total, "no byte is lost or duplicated")
}


// vCountMetric is a metrics.Metric that records what is added to it.
type vCountMetric struct {
	added int64
	calls int
}

func (m *vCountMetric) Name() string            { return "verif" }
func (m *vCountMetric) Type() metrics.MetricType { return metrics.COUNTER_TIME_SERIES }
func (m *vCountMetric) Add(delta int64) int64   { m.added += delta; m.calls++; return m.added }
func (m *vCountMetric) Load() int64             { return m.added }
func (m *vCountMetric) Store(val int64)         {}
