package protocol

import (
	"io"
	"runtime"
	"time"

	"github.com/enfein/mieru/v3/pkg/common"
)

// H3.2 receiver side of a graceful close (both transports deliver the peer's
// close as Session.Close on this side, after the data segments that preceded
// it in sequence have been queued):  if Session.Read returns io.EOF then the
// receive queue and the unread buffer are empty - a reader never observes a
// clean end-of-stream while data it has not been given is still queued.
//
// Environment (rely): between any two shared-state operations of Read another
// goroutine may (a) queue the next in-order data segment and/or (b) complete
// the close.  The hook is the redirect of segmentTree.Len, the operation Read
// performs right before it decides to wait.
var vEnvSession *Session
var vEnvSteps int

func vStubTreeLenEnv(t *segmentTree) int {
	n := vModelOf(t).n
	if vEnvSession != nil && t == vEnvSession.recvQueue && vEnvSteps < 1 {
		vEnvSteps++
		s := vEnvSession
		if vNondetBool("env.insert") {
			seg := vDataSeg("env", !s.isClient, s.id, 2)
			vAssume(len(seg.payload) > 0)
			s.recvQueue.Insert(seg) // what inputData does on the input goroutine
		}
		if vNondetBool("env.close") {
			s.forwardStateTo(sessionClosed)
			close(s.closedChan) // what closeWithError does after the peer's close request was input
		}
	}
	return n
}

func vH_C03_read_eof_means_drained() {
	isClient := vNondetBool("isClient")
	tr := common.StreamTransport
	if vNondetBool("packet") {
		tr = common.PacketTransport
	}
	s := vNewSession(7, isClient, tr)
	s.forwardStateTo(sessionAttached)
	s.forwardStateTo(sessionEstablished)
	vEnvSession, vEnvSteps = s, 0
	b := make([]byte, 4)
	n, err := s.Read(b)
	if err == io.EOF {
		vAssert(n == 0, "EOF carries no data")
		vAssert(vModelOf(s.recvQueue).n == 0 && len(s.unreadBuf) == 0, "io.EOF is returned only when nothing is left to read")
	}
}

// Native replay of a counterexample.  The replay overlays a copy of
// session.go in which the queue-length check of Read calls vReplayLenHook, the
// native twin of the symbolic environment step: right after Read saw an empty
// queue, the input goroutine's two steps happen (queue a data segment, complete
// the close).  Both select cases are then ready and Go picks one at random, so
// a bounded number of attempts shows the premature EOF if the code allows it.
var vReplayHookOn bool

func vReplayLenHook(s *Session) int {
	n := s.recvQueue.Len()
	if vReplayHookOn && n == 0 {
		vReplayHookOn = false
		seg := &segment{metadata: &dataAckStruct{baseStruct: baseStruct{protocol: uint8(dataServerToClient)}, sessionID: s.id, seq: 0, payloadLen: 1}, payload: []byte{42}, transport: s.transportProtocol}
		s.recvQueue.Insert(seg)
		s.forwardStateTo(sessionClosed)
		close(s.closedChan)
	}
	return n
}

func vR_C03_read_eof() string {
	for attempt := 0; attempt < 64; attempt++ {
		s := NewSession(7, true, 1400, nil, nil)
		s.transportProtocol = common.StreamTransport
		s.forwardStateTo(sessionAttached)
		s.forwardStateTo(sessionEstablished)
		vReplayHookOn = true
		b := make([]byte, 4)
		n, err := s.Read(b)
		if err == io.EOF && n == 0 && s.recvQueue.Len() > 0 {
			return "Read returned io.EOF while a data segment was still queued"
		}
	}
	return ""
}

var _ = runtime.Gosched
var _ = time.Now

// ---- H3.3 UDP: the close request is acted on when it ARRIVES, not in sequence ----
//
// The peer wrote data (segments up to sequence number c-1), the writes
// succeeded, then it closed: its close request carries sequence number c.  On
// UDP the close request may overtake data segments (reordering, loss followed
// by retransmission).  Property: the reading application observes a clean
// io.EOF only if every segment below c was delivered to it first.
//
// region = "segments below c are still missing when the close request is
// input".  The main harness covers everything outside the region of an open
// known finding; the region itself is a harness of its own.
func vCloseOrder(onlyRegion bool) {
	isClient := vNondetBool("isClient")
	s := vNewSession(7, isClient, common.PacketTransport)
	s.forwardStateTo(sessionAttached)
	s.forwardStateTo(sessionEstablished)
	r0 := vNondetU32("nextRecv")
	vAssume(r0 < 0xfffffff0)
	s.nextRecv.Store(r0)
	c := vNondetU32("close.seq")
	vAssume(c >= r0 && c < r0+8)
	if vNondetBool("gap") { // a data segment received ahead of a gap waits in the receive buffer
		b := vDataSeg("buf", !isClient, 7, 1)
		vAssume(vSeq(b) > r0 && vSeq(b) < c)
		s.recvBuf.Insert(b)
	}
	missing := c > r0
	if onlyRegion {
		vAssume(missing)
	} else if vKnown("C03-i") {
		vAssume(!missing)
	}
	seg := &segment{metadata: &sessionStruct{baseStruct: baseStruct{protocol: uint8(closeSessionRequest)}, sessionID: 7, seq: c}, transport: common.PacketTransport}
	vOutputs = nil
	err := s.input(seg)
	vAssert(err == nil, "the close request is processed")
	buf := make([]byte, 4)
	n, rerr := s.Read(buf)
	if rerr == io.EOF && n == 0 {
		vAssert(!missing, "a clean end-of-stream is observed only after every segment the peer sent before its close request was delivered")
	}
}

func vH_C03_udp_close_order()         { vCloseOrder(false) }
func vH_C03_udp_close_overtakes_data() { vCloseOrder(true) }
