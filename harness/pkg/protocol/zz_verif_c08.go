package protocol

import (
	"encoding/binary"
	"time"
)

// H8.2 timestamp window.  The clock is read before and after the call, so the
// instant of the check inside Unmarshal lies between the two readings:
//   accepted  =>  n0min-1 <= ts <= n1min+1          (stale segments refused)
//   n1min-1 <= ts <= n0min+1 and otherwise valid  =>  accepted   (<= 1 minute apart agrees)
func vTsWindow(session bool) {
	b := vNondetBytes("b", MetadataLength)
	n0 := time.Now().Unix() / 60
	var err error
	if session {
		var ss sessionStruct
		err = ss.Unmarshal(b)
	} else {
		var das dataAckStruct
		err = das.Unmarshal(b)
	}
	n1 := time.Now().Unix() / 60
	ts := int64(binary.BigEndian.Uint32(b[2:]))
	if err == nil {
		vAssert(ts >= n0-1 && ts <= n1+1, "accepted => timestamp within one minute of the receiver's clock")
	}
	if ts >= n1-1 && ts <= n0+1 {
		// timestamp fine at every instant of the call: any rejection must have another reason
		if session {
			okProto := b[0] >= 2 && b[0] <= 5
			okLen := binary.BigEndian.Uint16(b[15:]) <= 1024
			if okProto && okLen {
				vAssert(err == nil, "timestamp within one minute and fields valid => accepted")
			}
		} else {
			okProto := b[0] >= 6 && b[0] <= 9
			if okProto {
				vAssert(err == nil, "timestamp within one minute and fields valid => accepted")
			}
		}
	}
}

func vH_C08_ts_session() { vTsWindow(true) }
func vH_C08_ts_dataack() { vTsWindow(false) }

// Native replay: re-base the model's timestamp on the real clock, keeping its
// distance (in minutes) from the model's "now", then call the real Unmarshal.
func vReplayTs(session bool) string {
	b := vVecBytes("nd.b.0")
	if len(b) != MetadataLength {
		return ""
	}
	sec, _ := vVecU64("nd.time.Now.sec.0")
	ts := int64(binary.BigEndian.Uint32(b[2:]))
	delta := ts - int64(sec)/60
	realMin := time.Now().Unix() / 60
	var nts int64
	if delta > 3 || delta < -3 {
		nts = ts // far away from the clock in the model: keep the absolute value (e.g. 0, 0xffffffff)
	} else {
		nts = realMin + delta
	}
	binary.BigEndian.PutUint32(b[2:], uint32(nts))
	var err error
	if session {
		var ss sessionStruct
		err = ss.Unmarshal(b)
	} else {
		var das dataAckStruct
		err = das.Unmarshal(b)
	}
	realMin2 := time.Now().Unix() / 60
	if err == nil && (nts < realMin-1 || nts > realMin2+1) {
		return "Unmarshal accepted a timestamp more than one minute from the clock"
	}
	if err != nil && nts >= realMin2-1 && nts <= realMin+1 {
		return "Unmarshal rejected a valid segment whose timestamp is within one minute: " + err.Error()
	}
	return ""
}

func vR_C08_ts_session() string { return vReplayTs(true) }
func vR_C08_ts_dataack() string { return vReplayTs(false) }
