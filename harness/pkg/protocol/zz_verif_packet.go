package protocol

import (
	"net"
	"time"

	"github.com/enfein/mieru/v3/pkg/appctl/appctlpb"
	"github.com/enfein/mieru/v3/pkg/cipher"
	"github.com/enfein/mieru/v3/pkg/common"
)

// ---- UDP underlay harnesses ----

// vFakePacketConn delivers a scripted list of datagrams and logs what is sent.
type vFakePacketConn struct {
	in      [][]byte
	pos     int
	outLens []int
	out     [][]byte
	writes  int
	closed  bool
}

type vUDPAddr struct{ s string }

func (a vUDPAddr) Network() string { return "udp" }
func (a vUDPAddr) String() string  { return a.s }

type vTimeoutErr struct{}

func (vTimeoutErr) Error() string   { return "i/o timeout" }
func (vTimeoutErr) Timeout() bool   { return true }
func (vTimeoutErr) Temporary() bool { return true }

func (c *vFakePacketConn) ReadFrom(p []byte) (int, net.Addr, error) {
	if c.pos >= len(c.in) {
		return 0, nil, vTimeoutErr{}
	}
	d := c.in[c.pos]
	c.pos++
	n := copy(p, d)
	return n, vUDPAddr{"peer"}, nil
}

func (c *vFakePacketConn) WriteTo(p []byte, addr net.Addr) (int, error) {
	c.outLens = append(c.outLens, len(p))
	c.out = append(c.out, p)
	c.writes++
	return len(p), nil
}
func (c *vFakePacketConn) Close() error                       { c.closed = true; return nil }
func (c *vFakePacketConn) LocalAddr() net.Addr                { return vUDPAddr{"local"} }
func (c *vFakePacketConn) SetDeadline(t time.Time) error      { return nil }
func (c *vFakePacketConn) SetReadDeadline(t time.Time) error  { return nil }
func (c *vFakePacketConn) SetWriteDeadline(t time.Time) error { return nil }

// vLenCipher: a cipher.BlockCipher that only accounts for LENGTHS (length-level
// fidelity of DESIGN.md 3.4): Encrypt needs nonce+len+tag bytes of capacity and
// writes nothing.  Used where the property is about sizes, not contents.
type vLenCipher struct{ user string }

func (b *vLenCipher) Encrypt(dst, plaintext []byte) error {
	vAssert(cap(dst)-len(dst) >= 24+len(plaintext)+16, "Encrypt is given enough room for nonce, ciphertext and tag")
	return nil
}
func (b *vLenCipher) EncryptWithNonce(dst, nonce, plaintext []byte) error {
	vAssert(cap(dst)-len(dst) >= len(plaintext)+16 && len(nonce) == 24, "EncryptWithNonce is given enough room for ciphertext and tag")
	return nil
}
func (b *vLenCipher) Decrypt(ciphertext []byte) ([]byte, error) { return nil, vTimeoutErr{} }
func (b *vLenCipher) DecryptWithNonce(ciphertext, nonce []byte) ([]byte, error) {
	return nil, vTimeoutErr{}
}
func (b *vLenCipher) DecryptStatelessTo(ciphertext, dst []byte) ([]byte, error) {
	return nil, vTimeoutErr{}
}
func (b *vLenCipher) NonceSize() int                                 { return 24 }
func (b *vLenCipher) Overhead() int                                  { return 16 }
func (b *vLenCipher) Clone() cipher.BlockCipher                      { c := *b; return &c }
func (b *vLenCipher) CloneStatelessFast() cipher.BlockCipher         { c := *b; return &c }
func (b *vLenCipher) SetImplicitNonceMode(enable bool)               {}
func (b *vLenCipher) IsStateless() bool                              { return true }
func (b *vLenCipher) BlockContext() cipher.BlockContext              { return cipher.BlockContext{UserName: b.user} }
func (b *vLenCipher) SetBlockContext(bc cipher.BlockContext)         { b.user = bc.UserName }
func (b *vLenCipher) NoncePattern() *appctlpb.NoncePattern           { return nil }
func (b *vLenCipher) SetNoncePattern(pattern *appctlpb.NoncePattern) {}

// padding generator contract: ANY length 0..maxLen (the generator's own
// distribution is irrelevant to a bound that must hold for every outcome)
var vPadLens [4]int
var vPadN int

func vStubNewPaddingAnyLen(opts paddingOpts) []byte {
	n := vNondetInt("padlen")
	vAssume(n >= 0 && n <= opts.maxLen)
	if opts.maxLen <= 0 {
		n = 0
	}
	if vPadN < 4 {
		vPadLens[vPadN] = n
	}
	vPadN++
	return make([]byte, n)
}

func vStubRecommendedOpts(maxLen, randomDataLen int, strategySource string) paddingOpts {
	return paddingOpts{maxLen: maxLen, ascii: &asciiPaddingOpts{}}
}

func vArbPattern() *appctlpb.TrafficPattern {
	if vNondetBool("tp.nil") {
		return nil
	}
	tp := &appctlpb.TrafficPattern{}
	if vNondetBool("tp.padding") {
		tp.Padding = &appctlpb.PaddingPattern{}
		if vNondetBool("tp.mid.set") {
			v := vNondetI32("tp.mid")
			tp.Padding.MaxMiddlePaddingLen = &v
		}
		if vNondetBool("tp.end.set") {
			v := vNondetI32("tp.end")
			tp.Padding.MaxEndPaddingLen = &v
		}
	}
	return tp
}

// H14.2 (UDP): every datagram PacketUnderlay.writeOneSegment hands to the
// socket is at most the MTU, for every MTU 1280..1500, every segment kind,
// every payload size the session layer can queue, every traffic pattern and
// every padding length the generator may return; the metadata length fields
// describe the datagram exactly.
func vPacketWriteLen(session bool) {
	mtu := vNondetInt("mtu")
	vAssume(mtu >= 1280 && mtu <= 1500)
	tp := vArbPattern()
	pc := &vFakePacketConn{}
	isClient := vNondetBool("isClient")
	u := &PacketUnderlay{baseUnderlay: *newBaseUnderlay(isClient, mtu, tp), conn: pc, serverAddr: vUDPAddr{"peer"}}
	blk := &vLenCipher{user: "u"}
	if isClient {
		u.block = blk
	}
	vPadN = 0
	pl := vNondetInt("payload.len")
	var seg *segment
	if session {
		proto := vNondetU8("protocol")
		vAssume(proto >= uint8(openSessionRequest) && proto <= uint8(closeSessionResponse))
		vAssume(pl >= 0 && pl <= MaxSessionOpenPayload)
		seg = &segment{metadata: &sessionStruct{baseStruct: baseStruct{protocol: proto}, sessionID: 7, seq: vNondetU32("seq"), statusCode: vNondetU8("status"),
			payloadLen: uint16(pl)}, payload: make([]byte, pl), transport: common.PacketTransport, block: blk}
	} else {
		proto := uint8(dataClientToServer)
		switch vNondetU8("kind") & 3 {
		case 1:
			proto = uint8(dataServerToClient)
		case 2:
			proto = uint8(ackClientToServer)
		case 3:
			proto = uint8(ackServerToClient)
		}
		// what writeChunk / the ack path can queue: at most one fragment of payload
		mfs, ferr := maxFragmentSize(mtu, common.PacketTransport, appctlpb.LowEntropyMode_LOW_ENTROPY_MODE_OFF)
		vAssert(ferr == nil, "maxFragmentSize has a value for every supported MTU")
		vAssume(pl >= 0 && pl <= mfs)
		seg = &segment{metadata: &dataAckStruct{baseStruct: baseStruct{protocol: proto}, sessionID: 7, seq: vNondetU32("seq"), unAckSeq: vNondetU32("unack"),
			windowSize: vNondetU16("win"), fragment: vNondetU8("frag"), payloadLen: uint16(pl),
			prefixLen: vNondetU8("old.prefix"), suffixLen: vNondetU8("old.suffix")}, // a retransmission carries the lengths of its previous transmission
			payload: make([]byte, pl), transport: common.PacketTransport, block: blk}
	}
	err := u.writeOneSegment(seg, vUDPAddr{"peer"})
	vAssert(err == nil, "writeOneSegment succeeds")
	vAssert(pc.writes == 1 && len(pc.outLens) == 1, "exactly one datagram per segment")
	n := pc.outLens[0]
	vAssert(n <= mtu, "datagram length <= MTU")
	enc := 0
	if pl > 0 {
		enc = pl + 16
	}
	if session {
		ss := seg.metadata.(*sessionStruct)
		vAssert(n == 24+32+16+enc+int(ss.suffixLen), "session datagram = nonce + metadata + tag + payload(+tag) + suffix padding, as recorded in the metadata")
		vAssert(int(ss.suffixLen) == vPadLens[0] && vPadN == 1, "suffix length field = padding actually appended (no uint8 truncation)")
		vAssert(int(ss.payloadLen) == pl, "payload length field = payload bytes")
	} else {
		das := seg.metadata.(*dataAckStruct)
		vAssert(n == 24+32+16+int(das.prefixLen)+enc+int(das.suffixLen), "data/ack datagram = nonce + metadata + tag + prefix + payload(+tag) + suffix, as recorded in the metadata")
		vAssert(int(das.prefixLen) == vPadLens[0] && int(das.suffixLen) == vPadLens[1] && vPadN == 2, "padding length fields = paddings actually inserted (no uint8 truncation)")
		vAssert(int(das.payloadLen) == pl, "payload length field = payload bytes")
		if tp != nil && tp.Padding != nil {
			if m := tp.Padding.MaxMiddlePaddingLen; m != nil && *m >= 0 {
				vAssert(int(das.prefixLen) <= int(*m), "configured middle padding maximum honoured (0 = none)")
			}
			if m := tp.Padding.MaxEndPaddingLen; m != nil && *m >= 0 {
				vAssert(int(das.suffixLen) <= int(*m), "configured end padding maximum honoured (0 = none)")
			}
		}
	}
}

func vH_C14_packet_write_session() { vPacketWriteLen(true) }
func vH_C14_packet_write_dataack() { vPacketWriteLen(false) }

// ---- H4.2 / H10.3 / H5.2: parsing an arbitrary datagram body ----
//
// The metadata has been authenticated (the sender holds a valid credential,
// so EVERY field value may occur: protocol, prefix/payload/suffix lengths are
// arbitrary), the rest of the datagram - `remaining`, every length 0..vParseMax
// - is arbitrary bytes, and the ideal AEAD table holds one genuine payload seal
// (2 bytes, nonce N0).  The real parser never panics; if it returns a segment,
// the lengths recorded in the metadata describe the datagram EXACTLY and the
// payload is the genuine plaintext sealed under the datagram's own nonce.
const vParseMax = 21

func vPacketParse(session bool) {
	st := &vIdealState{}
	blk := &vIdealCipher{st: st, key: 1, user: "alice"}
	n0 := vNondetBytes("genuine.nonce", 24)
	pt := vNondetBytes("genuine.pt", 2)
	gbuf := make([]byte, 0, 18)
	vAssert(blk.EncryptWithNonce(gbuf, n0, pt) == nil, "genuine seal")
	gct := st.seals[0].ct
	isClient := vNondetBool("isClient")
	u := &PacketUnderlay{baseUnderlay: *newBaseUnderlay(isClient, 1400, nil), conn: &vFakePacketConn{}, serverAddr: vUDPAddr{"peer"}}
	var passed cipher.BlockCipher = blk
	if isClient {
		u.block = blk
		passed = nil
	}
	nonce := vNondetBytes("nonce", 24)
	prefix, suffix, plen := 0, 0, 0
	for L := 0; L <= vParseMax; L++ {
		remaining := vNondetBytes("remaining", L)
		var seg *segment
		var err error
		if session {
			proto := vNondetU8("protocol")
			vAssume(proto >= uint8(openSessionRequest) && proto <= uint8(closeSessionResponse))
			ss := &sessionStruct{baseStruct: baseStruct{protocol: proto}, sessionID: vNondetU32("sid"), seq: vNondetU32("seq"), statusCode: vNondetU8("status"),
				payloadLen: vNondetU16("payloadLen"), suffixLen: vNondetU8("suffixLen")}
			seg, err = u.parseSessionSegment(ss, nonce, remaining, passed)
			prefix, suffix, plen = 0, int(ss.suffixLen), int(ss.payloadLen)
		} else {
			proto := vNondetU8("protocol")
			vAssume(proto == uint8(dataClientToServer) || proto == uint8(dataServerToClient) || proto == uint8(ackClientToServer) || proto == uint8(ackServerToClient))
			das := &dataAckStruct{baseStruct: baseStruct{protocol: proto}, sessionID: vNondetU32("sid"), seq: vNondetU32("seq"), unAckSeq: vNondetU32("unack"),
				windowSize: vNondetU16("win"), fragment: vNondetU8("frag"), prefixLen: vNondetU8("prefixLen"), payloadLen: vNondetU16("payloadLen"), suffixLen: vNondetU8("suffixLen")}
			seg, err = u.parseDataAckSegment(das, nonce, remaining, passed)
			prefix, suffix, plen = int(das.prefixLen), int(das.suffixLen), int(das.payloadLen)
		}
		if err != nil {
			vAssert(seg == nil, "a rejected datagram yields no segment")
			continue
		}
		vAssert(seg != nil, "accepted => a segment")
		enc := 0
		if plen > 0 {
			enc = plen + 16
		}
		vAssert(prefix+enc+suffix == L, "accepted => prefix + payload(+tag) + suffix is EXACTLY the rest of the datagram (no truncated, no over-long datagram)")
		if plen > 0 {
			vAssert(plen == 2 && len(seg.payload) == 2, "accepted payload has the genuine length")
			same := true
			for i := 0; i < 24; i++ {
				if nonce[i] != n0[i] {
					same = false
				}
			}
			vAssert(same, "accepted payload was sealed under the datagram's own nonce")
			vAssert(seg.payload[0] == pt[0] && seg.payload[1] == pt[1], "accepted payload is the genuine plaintext")
			for i := 0; i < 18; i++ {
				vAssert(remaining[prefix+i] == gct[i], "accepted => ciphertext and tag are the genuine bytes at the offset the metadata names")
			}
		} else {
			vAssert(len(seg.payload) == 0, "no payload length => no payload")
		}
	}
}

func vH_C04_packet_parse_session() { vPacketParse(true) }
func vH_C04_packet_parse_dataack() { vPacketParse(false) }

// ---- H1.1 (length level, quick): TCP framing arithmetic ----
//
// vLenStreamCipher: implicit-nonce cipher at length level - the first Encrypt
// of a direction emits the 24-byte nonce, every Encrypt adds a 16-byte tag.
type vLenStreamCipher struct {
	hasNonce bool
	encrypts int
	user     string
}

func (b *vLenStreamCipher) Encrypt(dst, plaintext []byte) error {
	need := len(plaintext) + 16
	if !b.hasNonce {
		need += 24
		b.hasNonce = true
	}
	b.encrypts++
	vAssert(cap(dst)-len(dst) >= need, "Encrypt is given enough room for (nonce,) ciphertext and tag")
	return nil
}
func (b *vLenStreamCipher) EncryptWithNonce(dst, nonce, plaintext []byte) error { return vTimeoutErr{} }
func (b *vLenStreamCipher) Decrypt(ciphertext []byte) ([]byte, error)           { return nil, vTimeoutErr{} }
func (b *vLenStreamCipher) DecryptWithNonce(ciphertext, nonce []byte) ([]byte, error) {
	return nil, vTimeoutErr{}
}
func (b *vLenStreamCipher) DecryptStatelessTo(ciphertext, dst []byte) ([]byte, error) {
	return nil, vTimeoutErr{}
}
func (b *vLenStreamCipher) NonceSize() int                         { return 24 }
func (b *vLenStreamCipher) Overhead() int                          { return 16 }
func (b *vLenStreamCipher) Clone() cipher.BlockCipher              { c := *b; return &c }
func (b *vLenStreamCipher) CloneStatelessFast() cipher.BlockCipher { c := *b; return &c }
func (b *vLenStreamCipher) SetImplicitNonceMode(enable bool) {
	if !enable {
		b.hasNonce = false
	}
}
func (b *vLenStreamCipher) IsStateless() bool                              { return false }
func (b *vLenStreamCipher) BlockContext() cipher.BlockContext              { return cipher.BlockContext{UserName: b.user} }
func (b *vLenStreamCipher) SetBlockContext(bc cipher.BlockContext)         { b.user = bc.UserName }
func (b *vLenStreamCipher) NoncePattern() *appctlpb.NoncePattern           { return nil }
func (b *vLenStreamCipher) SetNoncePattern(pattern *appctlpb.NoncePattern) {}

// vLenConn records only how many bytes were written, and in how many pieces.
type vLenConn struct {
	total, writes int
	closed        bool
}

func (c *vLenConn) Read(p []byte) (int, error)         { return 0, vTimeoutErr{} }
func (c *vLenConn) Write(p []byte) (int, error)        { c.total += len(p); c.writes++; return len(p), nil }
func (c *vLenConn) Close() error                       { c.closed = true; return nil }
func (c *vLenConn) LocalAddr() net.Addr                { return vUDPAddr{"local"} }
func (c *vLenConn) RemoteAddr() net.Addr               { return vUDPAddr{"peer"} }
func (c *vLenConn) SetDeadline(t time.Time) error      { return nil }
func (c *vLenConn) SetReadDeadline(t time.Time) error  { return nil }
func (c *vLenConn) SetWriteDeadline(t time.Time) error { return nil }

// Two consecutive segments of a client stream underlay: the bytes handed to the
// connection are  [24 nonce, first segment only] + 48 + prefix + payload(+16) +
// suffix  with prefix/suffix/payload lengths exactly as recorded in the
// metadata the peer will decrypt; one encryption per metadata and per
// non-empty payload; the length fields lose nothing (uint8 / uint16).
func vH_C01_stream_write_len() {
	tp := vArbPattern()
	conn := &vLenConn{}
	blk := &vLenStreamCipher{user: "u"}
	u := &StreamUnderlay{baseUnderlay: *newBaseUnderlay(true, 1400, tp), conn: conn, block: blk}
	before := 0
	for k := 0; k < 2; k++ {
		pl := vNondetInt("payload.len")
		var seg *segment
		session := vNondetBool("session")
		vPadN = 0
		if session {
			proto := vNondetU8("protocol")
			vAssume(proto >= uint8(openSessionRequest) && proto <= uint8(closeSessionResponse))
			vAssume(pl >= 0 && pl <= MaxSessionOpenPayload)
			seg = &segment{metadata: &sessionStruct{baseStruct: baseStruct{protocol: proto}, sessionID: 7, seq: vNondetU32("seq"), payloadLen: uint16(pl)},
				payload: make([]byte, pl), transport: common.StreamTransport}
		} else {
			vAssume(pl >= 0 && pl <= maxPDU)
			seg = &segment{metadata: &dataAckStruct{baseStruct: baseStruct{protocol: uint8(dataClientToServer)}, sessionID: 7, seq: vNondetU32("seq"), payloadLen: uint16(pl),
				prefixLen: vNondetU8("old.prefix"), suffixLen: vNondetU8("old.suffix")}, payload: make([]byte, pl), transport: common.StreamTransport}
		}
		enc0 := u.send
		err := u.writeOneSegment(seg)
		vAssert(err == nil, "writeOneSegment succeeds")
		n := conn.total - before
		before = conn.total
		enc := 0
		if pl > 0 {
			enc = pl + 16
		}
		first := 0
		if k == 0 {
			first = 24
			vAssert(enc0 == nil && u.send != nil, "the send cipher is derived on the first write")
		}
		if session {
			ss := seg.metadata.(*sessionStruct)
			vAssert(n == first+48+enc+int(ss.suffixLen), "session segment = [nonce] + metadata + tag + payload(+tag) + suffix padding as recorded")
			vAssert(int(ss.suffixLen) == vPadLens[0] && vPadN == 1 && int(ss.payloadLen) == pl, "length fields = bytes actually written")
		} else {
			das := seg.metadata.(*dataAckStruct)
			vAssert(n == first+48+int(das.prefixLen)+enc+int(das.suffixLen), "data segment = [nonce] + metadata + tag + prefix + payload(+tag) + suffix as recorded")
			vAssert(int(das.prefixLen) == vPadLens[0] && int(das.suffixLen) == vPadLens[1] && vPadN == 2 && int(das.payloadLen) == pl, "length fields = bytes actually written")
		}
	}
	vAssert(u.send.(*vLenStreamCipher).hasNonce, "the nonce went out with the first segment only")
}

// The read side: whatever the authenticated metadata says, a successful
// readOneSegment consumed EXACTLY  [24] + 48 + prefix + payload(+16) + suffix
// bytes of the stream - so the next segment starts where the writer put it.
func vH_C01_stream_read_len() {
	l := vNondetInt("len")
	vAssume(l >= 0 && l <= 70000)
	conn := &vFakeConn{in: make([]byte, l)}
	isClient := vNondetBool("isClient")
	u := &StreamUnderlay{baseUnderlay: *newBaseUnderlay(isClient, 1400, nil), conn: conn}
	u.recv = &vOracleCipher{user: "peer"}
	seg, err := u.readOneSegment()
	if err == nil && seg != nil {
		enc := 0
		want := 48
		if ss, ok := seg.metadata.(*sessionStruct); ok {
			if ss.payloadLen > 0 {
				enc = int(ss.payloadLen) + 16
			}
			want += enc + int(ss.suffixLen)
			vAssert(len(seg.payload) == int(ss.payloadLen), "payload has the length the metadata names")
		} else {
			das := seg.metadata.(*dataAckStruct)
			if das.payloadLen > 0 {
				enc = int(das.payloadLen) + 16
			}
			want += int(das.prefixLen) + enc + int(das.suffixLen)
			vAssert(len(seg.payload) == int(das.payloadLen), "payload has the length the metadata names")
		}
		vAssert(conn.pos == want, "a parsed segment consumed exactly metadata + prefix + payload(+tag) + suffix (the stream stays aligned)")
	}
}

// ---- H16.5: TCP fragmentation writes the same bytes, in order, in pieces ----
func vH_C16_tcp_fragment() {
	enable := true
	sleep := vNondetI32("maxSleepMs")
	vAssume(sleep >= 0 && sleep <= 100)
	tp := &appctlpb.TrafficPattern{TcpFragment: &appctlpb.TCPFragment{Enable: &enable, MaxSleepMs: &sleep}}
	for _, n := range [...]int{1, 2, 10, 40} {
		conn := &vFakeConn{}
		u := &StreamUnderlay{baseUnderlay: *newBaseUnderlay(true, 1400, tp), conn: conn}
		data := vNondetBytes("data", n)
		err := u.writeWithPossibleFragment(data)
		vAssert(err == nil, "fragmented write succeeds")
		vAssert(len(conn.out) == n, "the pieces add up to the buffer")
		for i := 0; i < n; i++ {
			vAssert(conn.out[i] == data[i], "the pieces carry the buffer's bytes in order")
		}
		vAssert(conn.writes >= 1 && conn.writes <= n, "at least one piece, no empty pieces")
	}
}
