package protocol

import (
	"io"
	"net"
	"runtime"

	"github.com/enfein/mieru/v3/pkg/appctl/appctlpb"
	"github.com/enfein/mieru/v3/pkg/cipher"
	"github.com/enfein/mieru/v3/pkg/common"
	"github.com/enfein/mieru/v3/pkg/metrics"
)

// ---- fakes shared by the session-level harnesses ----

// vFakeBlock is a cipher.BlockCipher that only carries a user context.
type vFakeBlock struct {
	user      string
	stateless bool
}

func (b *vFakeBlock) Encrypt(dst, plaintext []byte) error                      { return nil }
func (b *vFakeBlock) EncryptWithNonce(dst, nonce, plaintext []byte) error      { return nil }
func (b *vFakeBlock) Decrypt(ciphertext []byte) ([]byte, error)                { return nil, io.ErrUnexpectedEOF }
func (b *vFakeBlock) DecryptWithNonce(ciphertext, nonce []byte) ([]byte, error) {
	return nil, io.ErrUnexpectedEOF
}
func (b *vFakeBlock) DecryptStatelessTo(ciphertext, dst []byte) ([]byte, error) {
	return nil, io.ErrUnexpectedEOF
}
func (b *vFakeBlock) NonceSize() int                                 { return 24 }
func (b *vFakeBlock) Overhead() int                                  { return 16 }
func (b *vFakeBlock) Clone() cipher.BlockCipher                      { c := *b; return &c }
func (b *vFakeBlock) CloneStatelessFast() cipher.BlockCipher         { c := *b; return &c }
func (b *vFakeBlock) SetImplicitNonceMode(enable bool)               { b.stateless = !enable }
func (b *vFakeBlock) IsStateless() bool                              { return b.stateless }
func (b *vFakeBlock) BlockContext() cipher.BlockContext              { return cipher.BlockContext{UserName: b.user} }
func (b *vFakeBlock) SetBlockContext(bc cipher.BlockContext)         { b.user = bc.UserName }
func (b *vFakeBlock) NoncePattern() *appctlpb.NoncePattern           { return nil }
func (b *vFakeBlock) SetNoncePattern(pattern *appctlpb.NoncePattern) {}

// vOutputs logs what a session hands to its underlay (redirect of Session.output).
var vOutputs []*segment


func vStubOutput(s *Session, seg *segment, remoteAddr net.Addr) error {
	vOutputs = append(vOutputs, seg)
	seq, _ := seg.Seq()
	s.lastSend.Store(seq)
	return nil
}

// ---- H10.1: Session.input never panics on an authenticated segment ----
//
// The segment is any metadata the two Unmarshal functions can produce, of any
// protocol type, for this session id, carrying the cipher of ANY registered
// user (possibly not the user who owns the session).
func vH_C10_input_nopanic() {
	isClient := vNondetBool("isClient")
	tr := common.StreamTransport
	if vNondetBool("packet") {
		tr = common.PacketTransport
	}
	s := vNewSession(7, isClient, tr)
	s.forwardStateTo(sessionAttached)
	if vNondetBool("established") {
		s.forwardStateTo(sessionEstablished)
	}
	// the session may already be bound to its owner's cipher
	owner := &vFakeBlock{user: vNondetString("owner", 2)}
	vAssume(owner.user != "")
	if vNondetBool("bound") {
		var bc cipher.BlockCipher = owner
		s.block.Store(&bc)
		name := owner.user
		s.userName.Store(&name)
	}
	proto := vNondetU8("protocol")
	var md metadata
	if proto >= 2 && proto <= 5 {
		md = &sessionStruct{baseStruct: baseStruct{protocol: proto}, sessionID: 7, seq: vNondetU32("seq"),
			statusCode: vNondetU8("status"), payloadLen: 0, suffixLen: vNondetU8("suffix")}
	} else {
		md = &dataAckStruct{baseStruct: baseStruct{protocol: proto}, sessionID: 7, seq: vNondetU32("seq"),
			unAckSeq: vNondetU32("unAckSeq"), windowSize: vNondetU16("window"), fragment: vNondetU8("fragment")}
	}
	seg := &segment{metadata: md, transport: tr}
	if vNondetBool("hasBlock") {
		sender := &vFakeBlock{user: vNondetString("sender", 2)}
		vAssume(sender.user != "") // ciphers produced by user discovery always carry their user's name
		seg.block = sender
	}
	_ = s.input(seg)
}

// ---- H15.1: closing twice is safe and closes closedChan exactly once ----
func vH_C15_close_twice() {
	isClient := vNondetBool("isClient")
	tr := common.StreamTransport
	if vNondetBool("packet") {
		tr = common.PacketTransport
	}
	s := vNewSession(7, isClient, tr)
	st := vNondetU8("state")
	vAssume(st <= 3)
	if st >= 1 {
		s.forwardStateTo(sessionAttached)
	}
	if st >= 2 {
		s.forwardStateTo(sessionEstablished)
	}
	vOutputs = nil
	var e1 error
	if vNondetBool("errorClose") {
		e1 = s.closeWithError(io.ErrUnexpectedEOF)
	} else {
		e1 = s.Close()
	}
	e2 := s.Close()
	e3 := s.closeWithError(io.ErrClosedPipe)
	vAssert(e1 == nil && e2 == nil && e3 == nil, "Close may be repeated safely")
	closed := false
	select {
	case <-s.closedChan:
		closed = true
	default:
	}
	vAssert(closed, "after Close the closed channel is closed (blocked readers and writers are released)")
	vAssert(s.isState(sessionClosed), "state is closed")
	vAssert(len(vOutputs) <= 1, "at most one segment is emitted by the closes")
	if len(vOutputs) == 1 {
		vAssert(vOutputs[0].Protocol() == closeSessionRequest && st >= 1, "the only thing a close emits is one close request of an attached session")
	}
	// a Write after Close fails instead of blocking; a Read with nothing queued reports EOF
	_, werr := s.Write([]byte{1})
	vAssert(werr != nil, "Write after Close returns an error")
	n, rerr := s.Read(make([]byte, 1))
	vAssert(n == 0 && rerr == io.EOF, "Read after Close with nothing queued returns io.EOF")
}

var _ = runtime.Gosched

// metrics registration (a process-wide sync.Map registry) is replaced by a
// fresh counter per call in the session harnesses; accounting itself (C19) is
// checked on the real metrics package.
func vStubRegisterMetric(groupName, metricName string, metricType metrics.MetricType) metrics.Metric {
	if metricType == metrics.GAUGE {
		return &metrics.Gauge{}
	}
	return &metrics.Counter{}
}
