package protocol

import (
	"time"

	"github.com/enfein/mieru/v3/pkg/common"
)

// ---- H1.2 / H13.4 / H14.3: the write side ----
//
// Session.Write / writeChunk run for real.  The output loop - another goroutine -
// is the environment: wherever the code under test sleeps to let the queue
// move (time.Sleep redirected to vStubSleepEnv), the environment pops the head
// of the send queue, exactly what runOutputOnce* does, and the popped segments
// are logged in order.  Asserted: the bytes of b appear exactly once, in order,
// across segments with consecutive sequence numbers and fragment numbers
// counting down to 0; fragment sizes respect maxFragmentSize; every segment is
// stamped with the current cumulative ack and receive window; and a segment
// owns its payload - overwriting the caller's buffer after Write returned does
// not change what is (re)transmitted.
var vWrEnvSession *Session
var vPopped [6]*segment
var vPoppedN int

func vStubSleepEnv(d time.Duration) {
	if vWrEnvSession == nil {
		return
	}
	if seg, ok := vWrEnvSession.sendQueue.DeleteMin(); ok {
		if vPoppedN < 6 {
			vPopped[vPoppedN] = seg
		}
		vPoppedN++
	}
}

// vQueued returns the k-th segment created by the call, in creation order:
// first the ones the environment already popped, then those still queued.
func vQueuedCount(s *Session) int { return vPoppedN + vModelOf(s.sendQueue).n }
func vQueuedAt(s *Session, k int) *segment {
	if k < vPoppedN {
		return vPopped[k]
	}
	return vModelOf(s.sendQueue).items[k-vPoppedN]
}

func vWriteChunkCase(tr common.TransportProtocol, isClient bool, mtu int, n int) {
	s := vNewSession(7, isClient, tr)
	s.mtu = mtu
	s.forwardStateTo(sessionAttached)
	s.forwardStateTo(sessionEstablished)
	ns := vNondetU32("nextSend")
	vAssume(ns >= 1 && ns < 0xfffffff0)
	s.nextSend.Store(ns)
	nr := vNondetU32("nextRecv")
	s.nextRecv.Store(nr)
	vWrEnvSession, vPoppedN = s, 0
	b := vNondetBytes("b", n)
	sent, err := s.writeChunk(b)
	vWrEnvSession = nil
	vAssert(err == nil && sent == n, "writeChunk accepts the whole chunk")
	fs, ferr := maxFragmentSize(mtu, tr, 0)
	vAssert(ferr == nil && fs > 0, "fragment size known")
	want := 1
	if n > fs {
		want = (n-1)/fs + 1
	}
	cnt := vQueuedCount(s)
	vAssert(cnt == want, "number of segments = ceil(len/maxFragmentSize)")
	vAssert(s.nextSend.Load() == ns+uint32(want), "one sequence number consumed per segment")
	off := 0
	probe := vNondetInt("probe")
	vAssume(probe >= 0 && probe < n)
	for k := 0; k < want; k++ {
		seg := vQueuedAt(s, k)
		das := seg.metadata.(*dataAckStruct)
		vAssert(das.seq == ns+uint32(k), "sequence numbers are consecutive, in creation order, from nextSend")
		vAssert(int(das.fragment) == want-1-k, "fragment numbers count down to 0")
		vAssert(das.sessionID == 7 && das.unAckSeq == nr, "every segment carries the session id and the current cumulative ack")
		pl := len(seg.payload)
		vAssert(pl <= fs && pl >= 1 && int(das.payloadLen) == pl, "fragment within maxFragmentSize, length field = payload length")
		if k < want-1 {
			vAssert(pl == fs, "all but the last fragment are full")
		}
		if isClient {
			vAssert(das.Protocol() == dataClientToServer, "client data type")
		} else {
			vAssert(das.Protocol() == dataServerToClient, "server data type")
		}
		if probe >= off && probe < off+pl {
			vAssert(seg.payload[probe-off] == b[probe], "byte i of the chunk is byte i-offset of its fragment (nothing lost, duplicated or reordered)")
			// ownership: the caller may reuse its buffer once Write returned
			old := b[probe]
			b[probe] = old + 1
			vAssert(seg.payload[probe-off] == old, "a queued segment owns its payload (caller's buffer reuse does not change later transmissions)")
			b[probe] = old
		}
		off += pl
	}
	vAssert(off == n, "fragment lengths sum to the chunk length")
}

func vH_C01_writechunk_udp() {
	// MTU 1280: fragment 1192.  one fragment, exact, +1, two full, two+1
	for _, n := range [...]int{1, 1192, 1193, 2384, 2385} {
		vWriteChunkCase(common.PacketTransport, vNondetBool("isClient"), 1280, n)
	}
}

func vH_C01_writechunk_tcp() {
	for _, n := range [...]int{1, 1024, 1025, 32768} {
		vWriteChunkCase(common.StreamTransport, vNondetBool("isClient"), 1400, n)
	}
}

// First client write: piggybacked on the open-session request iff it is at
// most 1024 bytes (low entropy off); the request takes the first sequence
// number; larger first writes follow as data.
func vFirstWriteCase(tr common.TransportProtocol, n int) {
	s := vNewSession(7, true, tr)
	s.forwardStateTo(sessionAttached)
	vWrEnvSession, vPoppedN = s, 0
	b := vNondetBytes("b", n)
	sent, err := s.Write(b)
	vWrEnvSession = nil
	vAssert(err == nil && sent == n, "Write accepts everything")
	cnt := vQueuedCount(s)
	first := vQueuedAt(s, 0)
	ss, isSS := first.metadata.(*sessionStruct)
	vAssert(cnt >= 1 && isSS && ss.Protocol() == openSessionRequest && ss.seq == 0 && ss.sessionID == 7, "the first segment is the open-session request with sequence number 0")
	probe := 0
	if n > 0 {
		probe = vNondetInt("probe")
		vAssume(probe >= 0 && probe < n)
	}
	if n <= MaxSessionOpenPayload {
		vAssert(cnt == 1 && int(ss.payloadLen) == n && len(first.payload) == n, "a first write of at most 1024 bytes rides on the open-session request")
		if n > 0 {
			vAssert(first.payload[probe] == b[probe], "piggybacked bytes are the caller's bytes")
			old := b[probe]
			b[probe] = old + 1
			vAssert(first.payload[probe] == old, "the open-session request owns its payload (a retransmission carries the same bytes)")
		}
	} else {
		vAssert(cnt == 2 && ss.payloadLen == 0 && len(first.payload) == 0, "a larger first write is not piggybacked")
		d := vQueuedAt(s, 1)
		das, isD := d.metadata.(*dataAckStruct)
		vAssert(isD && das.seq == 1 && len(d.payload) == n && int(das.payloadLen) == n, "it follows as one data segment with the next sequence number")
		vAssert(n == 0 || d.payload[probe] == b[probe], "data bytes are the caller's bytes")
	}
	vAssert(s.openSessionRequestSent.Load(), "the request is marked as sent (never created twice)")
}

func vH_C14_first_write() {
	for _, n := range [...]int{0, 1, 1024, 1025} {
		vFirstWriteCase(common.StreamTransport, n)
	}
	for _, n := range [...]int{1, 1024} {
		vFirstWriteCase(common.PacketTransport, n)
	}
}
