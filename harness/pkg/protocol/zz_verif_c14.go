package protocol

import (
	"github.com/enfein/mieru/v3/pkg/appctl/appctlpb"
	"github.com/enfein/mieru/v3/pkg/common"
)

// H14.1 fragment and padding arithmetic for every MTU, transport, low-entropy
// mode and configured padding maximum.  Documented limits: datagram <= MTU,
// 16-bit length fields, 32768-byte fragments, uint8 fragment counter.
func vH_C14_fragment_arith() {
	mtu := vNondetInt("mtu")
	vAssume(mtu >= 1280 && mtu <= 1500)
	tr := common.TransportProtocol(vNondetU8("transport"))
	vAssume(tr == common.StreamTransport || tr == common.PacketTransport)
	mode := vNondetI32("mode")
	frag, err := maxFragmentSize(mtu, tr, appctlpb.LowEntropyMode(mode))
	if mode < 0 || mode > 4 {
		vAssert(err != nil, "invalid low entropy mode rejected")
		return
	}
	vAssert(err == nil, "valid mode accepted for every supported MTU")
	vAssert(frag >= 1 && frag <= 32768, "fragment size in [1, 32768]")
	wire := frag // bytes the payload body occupies on the wire
	if mode != 0 {
		enc, e2 := lowEntropyEncodedPayloadLen(frag, appctlpb.LowEntropyMode(mode))
		vAssert(e2 == nil, "a maximal fragment is encodable (fits the 16-bit payload length)")
		wire = int(enc)
		if mode == 1 && tr == common.StreamTransport {
			vAssert(frag == 32764, "documented: LOW_ENTROPY_MODE_32 stream fragments are at most 32764 bytes")
		}
	}
	vAssert(wire <= 65535, "payload length fits its 16-bit field")
	if tr == common.PacketTransport {
		vAssert(wire+packetOverhead <= mtu, "nonce+metadata+tags+payload body <= MTU")
	}
	// a 32768-byte application write never needs more than 256 fragments (uint8 counter)
	nfrag := (maxPDU + frag - 1) / frag
	vAssert(nfrag <= 256, "fragments of a maximal write fit the uint8 fragment counter")
	// the CLI accepts exactly this MTU range
	vAssert(packetOverhead == 24+32+16+16 && streamOverhead == 32+16+16, "documented per-segment overheads")
}

func vH_C14_padding_arith() {
	mtu := vNondetInt("mtu")
	vAssume(mtu >= 1280 && mtu <= 1500)
	tr := common.TransportProtocol(vNondetU8("transport"))
	vAssume(tr == common.StreamTransport || tr == common.PacketTransport)
	fragSize := vNondetInt("fragmentSize")
	existing := vNondetInt("existingPadding")
	vAssume(fragSize >= 0 && fragSize <= 65535 && existing >= 0 && existing <= 255)
	pos := paddingPosition(vNondetInt("position"))
	vAssume(pos == middlePadding || pos == endPadding)
	var tp *appctlpb.TrafficPattern
	hasTP, hasPad, hasMid, hasEnd := vNondetBool("hasTP"), vNondetBool("hasPadding"), vNondetBool("hasMid"), vNondetBool("hasEnd")
	mid, end := vNondetI32("maxMiddle"), vNondetI32("maxEnd")
	if hasTP {
		tp = &appctlpb.TrafficPattern{}
		if hasPad {
			tp.Padding = &appctlpb.PaddingPattern{}
			if hasMid {
				tp.Padding.MaxMiddlePaddingLen = &mid
			}
			if hasEnd {
				tp.Padding.MaxEndPaddingLen = &end
			}
		}
	}
	got := maxPaddingSizeWithTrafficPattern(mtu, tr, fragSize, existing, tp, pos)
	vAssert(got >= 0 && got <= 255, "padding size fits its uint8 length field")
	if tr == common.PacketTransport {
		if fragSize+existing+packetOverhead <= mtu {
			vAssert(fragSize+existing+got+packetOverhead <= mtu, "padding never pushes the datagram past the MTU")
		} else {
			vAssert(got == 0, "no room: no padding")
		}
	}
	// configured maxima are honoured (C16): 0 means none
	if hasTP && hasPad {
		if pos == middlePadding && hasMid {
			if mid <= 0 {
				vAssert(got == 0, "configured maximum 0 (or negative) => no middle padding")
			} else {
				vAssert(got <= int(mid), "middle padding <= configured maximum")
			}
		}
		if pos == endPadding && hasEnd {
			if end <= 0 {
				vAssert(got == 0, "configured maximum 0 (or negative) => no end padding")
			} else {
				vAssert(got <= int(end), "end padding <= configured maximum")
			}
		}
	}
}

// H14.4 MTU plumbing: the MTU an endpoint is configured with is the MTU its
// underlay descriptor reports - for EVERY supported value, the boundaries 1280
// and 1500 included - and maxFragmentSize / maxPaddingSize are computed from
// that same number (H14.1).
func vH_C14_mtu_plumbing() {
	mtu := vNondetInt("mtu")
	vAssume(mtu >= 1280 && mtu <= 1500)
	tr := common.StreamTransport
	if vNondetBool("packet") {
		tr = common.PacketTransport
	}
	p := NewUnderlayProperties(mtu, tr, nil, nil)
	vAssert(p.MTU() == mtu, "the underlay descriptor carries the configured MTU unchanged (1280 and 1500 included)")
	vAssert(p.TransportProtocol() == tr, "and the configured transport")
	b := newBaseUnderlay(vNondetBool("isClient"), mtu, nil)
	vAssert(b.MTU() == mtu, "the underlay itself works with the configured MTU")
}
