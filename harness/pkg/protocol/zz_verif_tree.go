package protocol

import (
	"github.com/enfein/mieru/v3/pkg/common"
	"github.com/enfein/mieru/v3/pkg/congestion"
	"github.com/google/btree"
)

// ---- model of github.com/google/btree.BTreeG[*segment] (DESIGN.md 3.5) ----
// A sorted set of at most vTreeK segment pointers keyed by sequence number,
// with replace-on-equal semantics.  The session-level harnesses redirect the
// B-tree's methods here; the library itself is trusted.  Inserting into a
// full model is outside the claim (assumed away and noted).

const vTreeK = 4

type vTree struct {
	n     int
	items [vTreeK]*segment
}

var vTrees = map[*btree.BTreeG[*segment]]*vTree{}

// vModelOf returns the sorted-set view of a segment tree: symbolically the
// model object, natively (replay, where the real B-tree runs) a snapshot of the
// real tree's contents in ascending order.
func vModelOf(t *segmentTree) *vTree {
	if !vNative() {
		return vTrees[t.tr]
	}
	if m, ok := vTrees[t.tr]; ok && m != nil {
		return m
	}
	m := &vTree{}
	t.tr.Ascend(func(it *segment) bool {
		if m.n < vTreeK {
			m.items[m.n] = it
		}
		m.n++
		return true
	})
	return m
}

func vSeq(s *segment) uint32 {
	q, _ := s.Seq()
	return q
}

func vTreeNew(degree int, less btree.LessFunc[*segment]) *btree.BTreeG[*segment] {
	t := new(btree.BTreeG[*segment])
	vTrees[t] = &vTree{}
	return t
}

func vTreeLen(t *btree.BTreeG[*segment]) int { return vTrees[t].n }

func vTreeReplaceOrInsert(t *btree.BTreeG[*segment], item *segment) (*segment, bool) {
	m := vTrees[t]
	seq := vSeq(item)
	p := 0
	for i := 0; i < vTreeK; i++ {
		if i < m.n && vSeq(m.items[i]) < seq {
			p++
		}
	}
	if p < m.n && vSeq(m.items[p]) == seq {
		old := m.items[p]
		m.items[p] = item
		return old, true
	}
	vAssume(m.n < vTreeK) // model capacity; more than vTreeK queued segments is outside the claim
	for i := vTreeK - 1; i > 0; i-- {
		if i > p && i <= m.n {
			m.items[i] = m.items[i-1]
		}
	}
	m.items[p] = item
	m.n++
	return nil, false
}

func vTreeMin(t *btree.BTreeG[*segment]) (*segment, bool) {
	m := vTrees[t]
	if m.n == 0 {
		return nil, false
	}
	return m.items[0], true
}

func vTreeMax(t *btree.BTreeG[*segment]) (*segment, bool) {
	m := vTrees[t]
	if m.n == 0 {
		return nil, false
	}
	return m.items[m.n-1], true
}

func vTreeDeleteMin(t *btree.BTreeG[*segment]) (*segment, bool) {
	m := vTrees[t]
	if m.n == 0 {
		return nil, false
	}
	min := m.items[0]
	for i := 0; i+1 < vTreeK; i++ {
		m.items[i] = m.items[i+1]
	}
	m.items[vTreeK-1] = nil
	m.n--
	return min, true
}

func vTreeClear(t *btree.BTreeG[*segment], addNodesToFreelist bool) {
	m := vTrees[t]
	m.n = 0
	for i := 0; i < vTreeK; i++ {
		m.items[i] = nil
	}
}

func vTreeAscend(t *btree.BTreeG[*segment], it btree.ItemIteratorG[*segment]) {
	m := vTrees[t]
	for i := 0; i < vTreeK; i++ {
		if i >= m.n {
			return
		}
		if !it(m.items[i]) {
			return
		}
	}
}

// ---- congestion control: floating point, stubbed by range contract ----

func vStubUpdateRTT(r *congestion.RTTStats, sample interface{ Nanoseconds() int64 }) {}

// ---- session construction for harnesses (same fields as newSessionWithServerUserPolicy) ----

func vNewSession(id uint32, isClient bool, transport common.TransportProtocol) *Session {
	s := &Session{
		id:                 id,
		isClient:           isClient,
		mtu:                1400,
		transportProtocol:  transport,
		status:             statusOK,
		ready:              make(chan struct{}),
		closedChan:         make(chan struct{}),
		inputErr:           make(chan error),
		outputErr:          make(chan error),
		sendQueue:          newSegmentTree(segmentTreeCapacity),
		sendBuf:            newSegmentTree(segmentTreeCapacity),
		recvBuf:            newSegmentTree(segmentTreeCapacity),
		recvQueue:          newSegmentTree(segmentTreeCapacity),
		recvChan:           make(chan *segment, segmentChanCapacity),
		rttStat:            new(congestion.RTTStats),
		cubicSendAlgorithm: new(congestion.CubicSendAlgorithm),
	}
	s.remoteWindowSize.Store(minWindowSize)
	return s
}

// vDataSeg builds a data segment of the session's direction with symbolic fields.
func vDataSeg(tag string, toServer bool, sessionID uint32, maxPayload int) *segment {
	p := uint8(dataServerToClient)
	if toServer {
		p = uint8(dataClientToServer)
	}
	n := int(vNondetU8(tag + ".len"))
	vAssume(n <= maxPayload)
	return &segment{
		metadata: &dataAckStruct{
			baseStruct: baseStruct{protocol: p},
			sessionID:  sessionID,
			seq:        vNondetU32(tag + ".seq"),
			unAckSeq:   vNondetU32(tag + ".unAckSeq"),
			windowSize: vNondetU16(tag + ".window"),
			fragment:   vNondetU8(tag + ".fragment"),
			payloadLen: uint16(n),
		},
		payload:   vNondetBytes(tag+".payload", maxPayload)[:n],
		transport: common.PacketTransport,
	}
}
