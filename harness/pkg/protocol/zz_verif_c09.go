package protocol

import (
	"time"
)

// Reference layouts written from docs/protocol.md "Metadata Format"; all
// multi-byte fields big endian.

func vBE16(b []byte, o int) uint16 { return uint16(b[o])<<8 | uint16(b[o+1]) }
func vBE32(b []byte, o int) uint32 {
	return uint32(b[o])<<24 | uint32(b[o+1])<<16 | uint32(b[o+2])<<8 | uint32(b[o+3])
}

// H9.4a session metadata: | type 1 | unused 1 | timestamp 4 | session ID 4 | seq 4 | status 1 | payload length 2 | suffix length 1 | unused 14 |
func vH_C09_session_layout() {
	ss := &sessionStruct{
		baseStruct: baseStruct{protocol: vNondetU8("protocol")},
		sessionID:  vNondetU32("sessionID"),
		seq:        vNondetU32("seq"),
		statusCode: vNondetU8("status"),
		payloadLen: vNondetU16("payloadLen"),
		suffixLen:  vNondetU8("suffixLen"),
	}
	n0 := time.Now().Unix() / 60
	b := ss.Marshal()
	n1 := time.Now().Unix() / 60
	vAssert(len(b) == 32, "metadata is 32 bytes")
	vAssert(b[0] == ss.protocol && b[1] == 0, "byte 0 type, byte 1 unused (zero)")
	ts := int64(vBE32(b, 2))
	vAssert(ts >= n0 && ts <= n1, "bytes 2-5: minutes since the Unix epoch at marshal time")
	vAssert(vBE32(b, 6) == ss.sessionID, "bytes 6-9 session ID")
	vAssert(vBE32(b, 10) == ss.seq, "bytes 10-13 sequence number")
	vAssert(b[14] == ss.statusCode, "byte 14 status code")
	vAssert(vBE16(b, 15) == ss.payloadLen, "bytes 15-16 payload length")
	vAssert(b[17] == ss.suffixLen, "byte 17 suffix length")
	for i := 18; i < 32; i++ {
		vAssert(b[i] == 0, "bytes 18-31 unused (zero)")
	}
	// every documented-valid layout is understood
	out := &sessionStruct{}
	err := out.Unmarshal(b)
	fresh := time.Now().Unix()/60-ts <= 1 // still within one minute when it is parsed
	if !fresh {
		return
	}
	if ss.protocol >= 2 && ss.protocol <= 5 && ss.payloadLen <= 1024 {
		vAssert(err == nil, "well-formed session metadata accepted")
		vAssert(out.protocol == ss.protocol && out.sessionID == ss.sessionID && out.seq == ss.seq &&
			out.statusCode == ss.statusCode && out.payloadLen == ss.payloadLen && out.suffixLen == ss.suffixLen && int64(out.timestamp) == ts,
			"Unmarshal(Marshal(m)) == m")
	} else {
		vAssert(err != nil, "wrong type or payload > 1024 rejected")
	}
}

// H9.4b data/ack metadata (+ low entropy extension)
// | type 1 | mode 1 | timestamp 4 | session ID 4 | seq 4 | unack 4 | window 2 | fragment 1 | prefix 1 | payload length 2 | suffix 1 | mask 4 | extracted length 2 | rotation 1 |
func vH_C09_dataack_layout() {
	das := &dataAckStruct{
		baseStruct:             baseStruct{protocol: vNondetU8("protocol")},
		lowEntropyMode:         vNondetU8("mode"),
		sessionID:              vNondetU32("sessionID"),
		seq:                    vNondetU32("seq"),
		unAckSeq:               vNondetU32("unAckSeq"),
		windowSize:             vNondetU16("windowSize"),
		fragment:               vNondetU8("fragment"),
		prefixLen:              vNondetU8("prefixLen"),
		payloadLen:             vNondetU16("payloadLen"),
		suffixLen:              vNondetU8("suffixLen"),
		lowEntropyMask:         vNondetU32("mask"),
		extractedPayloadLen:    vNondetU16("extractedLen"),
		lowEntropyMaskRotation: vNondetU8("rotation"),
	}
	n0 := time.Now().Unix() / 60
	b := das.Marshal()
	n1 := time.Now().Unix() / 60
	le := das.protocol == 10 || das.protocol == 11
	vAssert(len(b) == 32, "metadata is 32 bytes")
	vAssert(b[0] == das.protocol, "byte 0 type")
	ts := int64(vBE32(b, 2))
	vAssert(ts >= n0 && ts <= n1, "bytes 2-5 timestamp in minutes")
	vAssert(vBE32(b, 6) == das.sessionID && vBE32(b, 10) == das.seq && vBE32(b, 14) == das.unAckSeq, "bytes 6-17 session ID, seq, unack seq")
	vAssert(vBE16(b, 18) == das.windowSize && b[20] == das.fragment && b[21] == das.prefixLen, "bytes 18-21 window, fragment, prefix length")
	vAssert(vBE16(b, 22) == das.payloadLen && b[24] == das.suffixLen, "bytes 22-24 payload length, suffix length")
	if le {
		vAssert(b[1] == das.lowEntropyMode && vBE32(b, 25) == das.lowEntropyMask && vBE16(b, 29) == das.extractedPayloadLen && b[31] == das.lowEntropyMaskRotation,
			"low entropy extension: byte 1 mode, 25-28 mask, 29-30 extracted length, 31 rotation")
	} else {
		vAssert(b[1] == 0, "byte 1 unused (zero) outside the low entropy types")
		for i := 25; i < 32; i++ {
			vAssert(b[i] == 0, "bytes 25-31 unused (zero) outside the low entropy types")
		}
	}
	out := &dataAckStruct{}
	err := out.Unmarshal(b)
	if time.Now().Unix()/60-ts > 1 {
		return
	}
	if das.protocol >= 6 && das.protocol <= 9 {
		vAssert(err == nil, "well-formed data/ack metadata accepted")
	}
	if err == nil {
		vAssert(das.protocol >= 6 && das.protocol <= 11, "only data/ack types accepted")
		vAssert(out.protocol == das.protocol && out.sessionID == das.sessionID && out.seq == das.seq && out.unAckSeq == das.unAckSeq &&
			out.windowSize == das.windowSize && out.fragment == das.fragment && out.prefixLen == das.prefixLen &&
			out.payloadLen == das.payloadLen && out.suffixLen == das.suffixLen && int64(out.timestamp) == ts, "Unmarshal(Marshal(m)) == m (common fields)")
		if le {
			vAssert(out.lowEntropyMode == das.lowEntropyMode && out.lowEntropyMask == das.lowEntropyMask &&
				out.extractedPayloadLen == das.extractedPayloadLen && out.lowEntropyMaskRotation == das.lowEntropyMaskRotation, "Unmarshal(Marshal(m)) == m (low entropy fields)")
		}
	}
}
