package protocol

import (
	"io"
	"net"
	"time"
)

// vFakeConn is a net.Conn whose input is an arbitrary byte string delivered
// in arbitrary chunks (every Read returns 1..min(len(p), remaining) bytes,
// then io.EOF); writes are logged.
type vFakeConn struct {
	in     []byte
	pos    int
	out    []byte
	writes int
	closed bool
	chunky bool // deliver input in arbitrary chunks of 1..16 bytes (else: as much as fits)
}

type vFakeAddr struct{}

func (vFakeAddr) Network() string { return "tcp" }
func (vFakeAddr) String() string  { return "fake" }

func (c *vFakeConn) Read(p []byte) (int, error) {
	rem := len(c.in) - c.pos
	if rem <= 0 {
		return 0, io.EOF
	}
	if len(p) == 0 {
		return 0, nil
	}
	max := len(p)
	if rem < max {
		max = rem
	}
	// any chunk size 1..16 (a Read may always return fewer bytes than asked for)
	n := max
	if c.chunky {
		n = int(vNondetU8("chunk")&15) + 1
		if n > max {
			n = max
		}
	}
	copy(p[:n], c.in[c.pos:c.pos+n])
	c.pos += n
	return n, nil
}

func (c *vFakeConn) Write(p []byte) (int, error) {
	c.out = append(c.out, p...)
	c.writes++
	return len(p), nil
}

func (c *vFakeConn) Close() error                       { c.closed = true; return nil }
func (c *vFakeConn) LocalAddr() net.Addr                { return vFakeAddr{} }
func (c *vFakeConn) RemoteAddr() net.Addr               { return vFakeAddr{} }
func (c *vFakeConn) SetDeadline(t time.Time) error      { return nil }
func (c *vFakeConn) SetReadDeadline(t time.Time) error  { return nil }
func (c *vFakeConn) SetWriteDeadline(t time.Time) error { return nil }
