package protocol

import (
	"math/bits"

	"github.com/enfein/mieru/v3/pkg/appctl/appctlpb"
	"github.com/enfein/mieru/v3/pkg/mathext"
)

// ---- reference, written from docs/protocol.md "Low Entropy Payload Encoding" ----

// vRefValidRotation: 0, 1..15 (right), 16*k for k in 1..15 (left).
func vRefValidRotation(r int) bool {
	if r == 0 {
		return true
	}
	if r >= 1 && r <= 15 {
		return true
	}
	if r%16 == 0 && r/16 >= 1 && r/16 <= 15 {
		return true
	}
	return false
}

// vRefModeC returns source bytes per chunk and ones in the half mask.
func vRefModeC(mode int) (int, int) {
	switch mode {
	case 1:
		return 4, 16
	case 2:
		return 5, 20
	case 3:
		return 6, 24
	case 4:
		return 7, 28
	}
	return 0, 0
}

// H17.4 rotation: for every valid rotation value and every residue of the
// chunk index mod 64 (concrete case split) and every half mask h, the chunk
// mask is the initial mask rotated by i*R bits in R's direction, which is
// again a repeated 32-bit half mask of the same weight.
func vH_C17_rotation() {
	h := vNondetU32("h")
	q := vNondetU8("q") // chunk index = 64*q + res, so 0 <= i <= 16383 (>= 8191)
	m := mathext.RepeatUint32(h)
	for r := 0; r < 256; r++ {
		rot := appctlpb.LowEntropyMaskRotation(r)
		valid := vRefValidRotation(r)
		vAssert(isValidLowEntropyRotation(rot) == valid, "isValidLowEntropyRotation matches the documented set")
		if !valid {
			continue
		}
		for res := 0; res < 64; res++ {
			i := int(q)<<6 | res
			got, err := lowEntropyChunkMask(m, rot, i)
			vAssert(err == nil, "valid rotation accepted")
			// documented: rotate the initial mask by i*R bits (right for 1..15, left for 16*k)
			var exp uint64
			if r <= 15 {
				exp = bits.RotateLeft64(m, -((res * r) % 64))
			} else {
				exp = bits.RotateLeft64(m, (res*(r/16))%64)
			}
			vAssert(got == exp, "chunk mask = initial mask rotated by i*R")
			vAssert(uint32(got>>32) == uint32(got), "rotated mask is a repeated half mask")
			vAssert(bits.OnesCount32(uint32(got)) == bits.OnesCount32(h), "rotation preserves the half-mask weight")
		}
	}
}

// invalid rotation values and negative chunk indices are errors
func vH_C17_rotation_reject() {
	h := vNondetU32("h")
	r := vNondetI32("r")
	i := vNondetInt("i")
	_, err := lowEntropyChunkMask(mathext.RepeatUint32(h), appctlpb.LowEntropyMaskRotation(r), i)
	okRot := r >= 0 && r <= 255 && vRefValidRotation(int(r))
	vAssert((err == nil) == (okRot && i >= 0), "lowEntropyChunkMask errors exactly on invalid rotation or negative index")
}

// H17.5 length law.
func vH_C17_lenlaw() {
	n := vNondetInt("n")
	mode := vNondetI32("mode")
	got, err := lowEntropyEncodedPayloadLen(n, appctlpb.LowEntropyMode(mode))
	c, _ := vRefModeC(int(mode))
	if c == 0 || n <= 0 {
		vAssert(err != nil, "invalid mode or non-positive length rejected")
		return
	}
	chunks := n / c
	if n%c != 0 {
		chunks++
	}
	if chunks > 8191 {
		vAssert(err != nil, "more than 8191 chunks rejected")
		return
	}
	vAssert(err == nil, "valid length accepted")
	vAssert(int(got) == chunks*8, "encoded length = ceil(N/C)*8")
}

// ---- H17.3 round trip / H17.6 canonicity, by contract on the rotation ----

// vStubRotateMask: any 32-periodic mask of the same weight, a function of its
// arguments (H17.4 shows the real rotateLowEntropyMask satisfies this).
func vStubRotateMask(initialMask uint64, rotation appctlpb.LowEntropyMaskRotation, chunkIndex int) uint64 {
	if rotation == appctlpb.LowEntropyMaskRotation_LOW_ENTROPY_MASK_NO_ROTATION || chunkIndex == 0 {
		return initialMask
	}
	h := uint32(vUF64("rotmask", initialMask, uint64(rotation), uint64(chunkIndex)))
	vAssume(bits.OnesCount32(h) == bits.OnesCount32(uint32(initialMask)))
	return mathext.RepeatUint32(h)
}

func vRoundTrip(mode int, maxN int) {
	c, ones := vRefModeC(mode)
	n := vNondetInt("n")
	vAssume(n >= 1 && n <= maxN)
	buf := vNondetBytes("src", maxN)
	src := buf[:n]
	h := vNondetU32("h")
	vAssume(bits.OnesCount32(h) == ones)
	r := vNondetU8("rot")
	vAssume(vRefValidRotation(int(r)))
	pad := vNondetU8("pad")
	vAssume(pad <= 1)
	m := appctlpb.LowEntropyMode(mode)
	rot := appctlpb.LowEntropyMaskRotation(r)

	enc, err := encodeLowEntropyPayloadWithPaddingBit(src, m, h, rot, pad)
	vAssert(err == nil, "encode succeeds on valid parameters")
	chunks := (n + c - 1) / c
	vAssert(len(enc) == chunks*8, "encoded length = ceil(N/C)*8")
	dec, err2 := decodeLowEntropyPayload(enc, n, m, h, rot)
	vAssert(err2 == nil, "decode accepts the encoder's output")
	vAssert(len(dec) == n, "decoded length = N")
	for i := 0; i < maxN; i++ {
		if i < n {
			vAssert(dec[i] == src[i], "decode(encode(src)) == src bytewise")
		}
	}
}

func vH_C17_roundtrip_m32() { vRoundTrip(1, 9) }
func vH_C17_roundtrip_m40() { vRoundTrip(2, 11) }
func vH_C17_roundtrip_m48() { vRoundTrip(3, 13) }
func vH_C17_roundtrip_m56() { vRoundTrip(4, 15) }

// H17.6 canonicity: whatever byte string the decoder accepts is exactly what
// the encoder produces for the decoded body with one of the two padding bits.
func vCanon(mode int, maxN int) {
	c, _ := vRefModeC(mode)
	n := vNondetInt("n")
	vAssume(n >= 1 && n <= maxN)
	maxEnc := ((maxN + c - 1) / c) * 8
	el := vNondetInt("enclen")
	vAssume(el >= 0 && el <= maxEnc)
	enc := vNondetBytes("enc", maxEnc)[:el]
	h := vNondetU32("h")
	r := vNondetU8("rot")
	m := appctlpb.LowEntropyMode(mode)
	rot := appctlpb.LowEntropyMaskRotation(r)
	dec, err := decodeLowEntropyPayload(enc, n, m, h, rot)
	if err != nil {
		return
	}
	_, ones := vRefModeC(mode)
	vAssert(bits.OnesCount32(h) == ones, "accepted => mask weight is the mode's")
	vAssert(vRefValidRotation(int(r)), "accepted => rotation valid")
	vAssert(el == ((n+c-1)/c)*8, "accepted => encoded length consistent with extracted length")
	vAssert(len(dec) == n, "accepted => decoded length = N")
	e0, err0 := encodeLowEntropyPayloadWithPaddingBit(dec, m, h, rot, 0)
	e1, err1 := encodeLowEntropyPayloadWithPaddingBit(dec, m, h, rot, 1)
	vAssert(err0 == nil && err1 == nil, "re-encoding the decoded body succeeds")
	eq0, eq1 := len(e0) == el, len(e1) == el
	for i := 0; i < maxEnc; i++ {
		if i < el {
			if i < len(e0) && e0[i] != enc[i] {
				eq0 = false
			}
			if i < len(e1) && e1[i] != enc[i] {
				eq1 = false
			}
		}
	}
	vAssert(eq0 || eq1, "accepted input is the canonical encoding with padding bit 0 or 1")
}

func vH_C17_canon_m32() { vCanon(1, 9) }
func vH_C17_canon_m40() { vCanon(2, 11) }
func vH_C17_canon_m48() { vCanon(3, 13) }
func vH_C17_canon_m56() { vCanon(4, 15) }
