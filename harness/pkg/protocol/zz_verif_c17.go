package protocol

import (
	"math/bits"

	"github.com/enfein/mieru/v3/pkg/appctl/appctlpb"
	"github.com/enfein/mieru/v3/pkg/mathext"
)

// ---- reference, written from docs/protocol.md "Low Entropy Payload Encoding" ----

// vRefValidRotation: 0, 1..15 (right), 16*k for k in 1..15 (left).
func vRefValidRotation(r int) bool {
	if r == 0 {
		return true
	}
	if r >= 1 && r <= 15 {
		return true
	}
	if r%16 == 0 && r/16 >= 1 && r/16 <= 15 {
		return true
	}
	return false
}

// vRefModeC returns source bytes per chunk and ones in the half mask.
func vRefModeC(mode int) (int, int) {
	switch mode {
	case 1:
		return 4, 16
	case 2:
		return 5, 20
	case 3:
		return 6, 24
	case 4:
		return 7, 28
	}
	return 0, 0
}

// H17.4 rotation: for every valid rotation value and every residue of the
// chunk index mod 64 (concrete case split) and every half mask h, the chunk
// mask is the initial mask rotated by i*R bits in R's direction, which is
// again a repeated 32-bit half mask of the same weight.
func vH_C17_rotation() {
	h := vNondetU32("h")
	q := vNondetU8("q") // chunk index = 64*q + res, so 0 <= i <= 16383 (>= 8191)
	m := mathext.RepeatUint32(h)
	for r := 0; r < 256; r++ {
		rot := appctlpb.LowEntropyMaskRotation(r)
		valid := vRefValidRotation(r)
		vAssert(isValidLowEntropyRotation(rot) == valid, "isValidLowEntropyRotation matches the documented set")
		if !valid {
			continue
		}
		for res := 0; res < 64; res++ {
			i := int(q)<<6 | res
			got, err := lowEntropyChunkMask(m, rot, i)
			vAssert(err == nil, "valid rotation accepted")
			// documented: rotate the initial mask by i*R bits (right for 1..15, left for 16*k)
			var exp uint64
			if r <= 15 {
				exp = bits.RotateLeft64(m, -((res * r) % 64))
			} else {
				exp = bits.RotateLeft64(m, (res*(r/16))%64)
			}
			vAssert(got == exp, "chunk mask = initial mask rotated by i*R")
			vAssert(uint32(got>>32) == uint32(got), "rotated mask is a repeated half mask")
			vAssert(bits.OnesCount32(uint32(got)) == bits.OnesCount32(h), "rotation preserves the half-mask weight")
		}
	}
}

// invalid rotation values and negative chunk indices are errors
func vH_C17_rotation_reject() {
	h := vNondetU32("h")
	r := vNondetI32("r")
	i := vNondetInt("i")
	_, err := lowEntropyChunkMask(mathext.RepeatUint32(h), appctlpb.LowEntropyMaskRotation(r), i)
	okRot := r >= 0 && r <= 255 && vRefValidRotation(int(r))
	vAssert((err == nil) == (okRot && i >= 0), "lowEntropyChunkMask errors exactly on invalid rotation or negative index")
}

// H17.5 length law.
func vH_C17_lenlaw() {
	n := vNondetInt("n")
	mode := vNondetI32("mode")
	got, err := lowEntropyEncodedPayloadLen(n, appctlpb.LowEntropyMode(mode))
	c, _ := vRefModeC(int(mode))
	if c == 0 || n <= 0 {
		vAssert(err != nil, "invalid mode or non-positive length rejected")
		return
	}
	chunks := n / c
	if n%c != 0 {
		chunks++
	}
	if chunks > 8191 {
		vAssert(err != nil, "more than 8191 chunks rejected")
		return
	}
	vAssert(err == nil, "valid length accepted")
	vAssert(int(got) == chunks*8, "encoded length = ceil(N/C)*8")
}

// ---- H17.3 round trip / H17.6 canonicity ----
//
// Two complementary cuts (see DESIGN.md, C17):
//  * one chunk, EVERY half mask of the mode's weight, real PDEP/PEXT loops:
//    bit-level correctness of deposit/extract/padding for all masks;
//  * several chunks with symbolic length and contents, every rotation, but
//    CONCRETE half masks (PDEP/PEXT fold to wiring): offsets, partial last
//    chunk, per-chunk rotation, padding uniformity across chunks.

func vMode(mode int) appctlpb.LowEntropyMode { return appctlpb.LowEntropyMode(mode) }

// one chunk (chunk index 0: the mask is the initial mask; H17.4 shows every
// later chunk's mask is again a repeated half mask of the same weight)
func vRoundTrip1(mode int) {
	c, ones := vRefModeC(mode)
	h := vNondetU32("h")
	vAssume(bits.OnesCount32(h) == ones)
	r := vNondetU8("rot")
	pad := vNondetU8("pad")
	vAssume(pad <= 1)
	rot := appctlpb.LowEntropyMaskRotation(r)
	vAssume(isValidLowEntropyRotation(rot)) // = the documented set, by vH_C17_rotation
	for n := 1; n <= c; n++ { // every length of a (possibly partial) single chunk
		src := vNondetBytes("src", n)
		enc, err := encodeLowEntropyPayloadWithPaddingBit(src, vMode(mode), h, rot, pad)
		vAssert(err == nil, "encode succeeds on valid parameters")
		vAssert(len(enc) == 8, "one chunk encodes to 8 bytes")
		var got uint64
		for j := 0; j < 8; j++ {
			got = got<<8 | uint64(enc[j])
		}
		vAssert(got == vRefEncodeChunk(src, n, mathext.RepeatUint32(h), pad), "chunk = documented bit-by-bit encoding for every half mask")
		dec, err2 := decodeLowEntropyPayload(enc, n, vMode(mode), h, rot)
		vAssert(err2 == nil, "decode accepts the encoder's output")
		vAssert(len(dec) == n, "decoded length = N")
		for i := 0; i < n; i++ {
			vAssert(dec[i] == src[i], "decode(encode(src)) == src bytewise")
		}
	}
}

func vH_C17_roundtrip1_m32() { vRoundTrip1(1) }
func vH_C17_roundtrip1_m40() { vRoundTrip1(2) }
func vH_C17_roundtrip1_m48() { vRoundTrip1(3) }
func vH_C17_roundtrip1_m56() { vRoundTrip1(4) }

// vRefEncodeChunk: bit-by-bit reference from docs/protocol.md for one chunk.
func vRefEncodeChunk(src []byte, n int, mask uint64, pad uint8) uint64 {
	var source uint64
	for i := 0; i < 8; i++ {
		if i < n {
			source = source<<8 | uint64(src[i])
		}
	}
	var out uint64
	k := uint(0)
	nbits := uint(n * 8)
	for i := uint(0); i < 64; i++ {
		if mask>>i&1 != 0 && k < nbits {
			out |= (source >> k & 1) << i
			k++
		} else if pad == 1 {
			out |= 1 << i
		}
	}
	return out
}

// concrete chunk masks per mode (repeated half masks of weight 16/20/24/28,
// the first one for mode 32 is the doc's example); chunk k uses entry k mod 6
func vChunkMaskTable(mode int, k int) uint64 {
	var t [6]uint32
	switch mode {
	case 1:
		t = [6]uint32{0x0f0f0f0f, 0xa5c3961e, 0xffff0000, 0x0000ffff, 0x5a3c69e1, 0xf0f0f0f0}
	case 2:
		t = [6]uint32{0x0f0f3f3f, 0xb5d3972f, 0xfffff000, 0x000fffff, 0x5e3c6de7, 0xf3f0f3f0}
	case 3:
		t = [6]uint32{0x3f3f3f3f, 0xf5dbb76f, 0xffffff00, 0x00ffffff, 0x7e3e6dff, 0xf3f3f3f3}
	default:
		t = [6]uint32{0x7f7f7f7f, 0xfdf7bf7f, 0xfffffff0, 0x0fffffff, 0x7f7f7ff7, 0xf7f7f7f7}
	}
	return mathext.RepeatUint32(t[k%6])
}

var vStubMode int
var vStubInitial uint64
var vStubRotation appctlpb.LowEntropyMaskRotation
var vStubArgsOK bool

// vStubRotateTable replaces rotateLowEntropyMask in the multi-chunk harnesses:
// it checks that the codec passes (initial mask, rotation, chunk index)
// unchanged and returns a concrete repeated half mask of the right weight for
// that chunk (H17.4 decides what the real function returns for those arguments).
func vStubRotateTable(initialMask uint64, rotation appctlpb.LowEntropyMaskRotation, chunkIndex int) uint64 {
	if initialMask != vStubInitial || rotation != vStubRotation || chunkIndex < 0 {
		vStubArgsOK = false
	}
	return vChunkMaskTable(vStubMode, chunkIndex)
}

// several chunks, symbolic length/contents/padding/rotation; per-chunk masks
// concrete (contract on rotateLowEntropyMask), so PDEP/PEXT fold to wiring
func vRoundTripN(mode int, maxN int) {
	c, ones := vRefModeC(mode)
	h := vNondetU32("h")
	vAssume(bits.OnesCount32(h) == ones)
	pad := vNondetU8("pad")
	vAssume(pad <= 1)
	r := vNondetU8("rot")
	rot := appctlpb.LowEntropyMaskRotation(r)
	vAssume(isValidLowEntropyRotation(rot)) // = the documented set, by vH_C17_rotation
	vStubMode, vStubInitial, vStubRotation, vStubArgsOK = mode, mathext.RepeatUint32(h), rot, true
	for n := 1; n <= maxN; n++ { // every length up to the bound (case split), contents symbolic
		src := vNondetBytes("src", n)
		enc, err := encodeLowEntropyPayloadWithPaddingBit(src, vMode(mode), h, rot, pad)
		vAssert(err == nil, "encode succeeds on valid parameters")
		chunks := (n + c - 1) / c
		vAssert(len(enc) == chunks*8, "encoded length = ceil(N/C)*8")
		for k := 0; k < chunks; k++ {
			cl := n - k*c
			if cl > c {
				cl = c
			}
			var got uint64
			for j := 0; j < 8; j++ {
				got = got<<8 | uint64(enc[k*8+j])
			}
			vAssert(got == vRefEncodeChunk(src[k*c:], cl, vChunkMaskTable(mode, k), pad), "chunk k = documented bit-by-bit encoding of source bytes [kC,(k+1)C) under chunk k's mask")
		}
		dec, err2 := decodeLowEntropyPayload(enc, n, vMode(mode), h, rot)
		vAssert(err2 == nil, "decode accepts the encoder's output")
		vAssert(len(dec) == n, "decoded length = N")
		for i := 0; i < n; i++ {
			vAssert(dec[i] == src[i], "decode(encode(src)) == src bytewise")
		}
	}
	vAssert(vStubArgsOK, "codec passes (RepeatUint32(halfMask), rotation, chunk index) to the mask rotation for every chunk")
}

func vH_C17_roundtripN_m32() { vRoundTripN(1, 17) }
func vH_C17_roundtripN_m40() { vRoundTripN(2, 21) }
func vH_C17_roundtripN_m48() { vRoundTripN(3, 25) }
func vH_C17_roundtripN_m56() { vRoundTripN(4, 29) }

// H17.6 canonicity and rejection.  Whatever byte string the decoder accepts
// is exactly what the encoder produces for the decoded body with padding bit 0
// or 1 (so unused mask-selected positions of a partial last chunk and every
// non-selected position carry one uniform padding bit), and the metadata
// consistency rules hold.  Two cuts as for the round trip: one chunk with every
// mask, several chunks with the concrete per-chunk mask table.
func vCanonCheck(mode int, n int, enc []byte, h uint32, rot appctlpb.LowEntropyMaskRotation, dec []byte) {
	vAssert(len(dec) == n, "accepted => decoded length = N")
	e0, err0 := encodeLowEntropyPayloadWithPaddingBit(dec, vMode(mode), h, rot, 0)
	e1, err1 := encodeLowEntropyPayloadWithPaddingBit(dec, vMode(mode), h, rot, 1)
	vAssert(err0 == nil && err1 == nil && len(e0) == len(enc) && len(e1) == len(enc), "re-encoding the decoded body succeeds with the same length")
	eq0, eq1 := true, true
	for i := 0; i < len(enc); i++ {
		if e0[i] != enc[i] {
			eq0 = false
		}
		if e1[i] != enc[i] {
			eq1 = false
		}
	}
	vAssert(eq0 || eq1, "accepted input is the canonical encoding with padding bit 0 or 1")
}

func vCanon1(mode int) {
	c, ones := vRefModeC(mode)
	h := vNondetU32("h")
	r := vNondetU8("rot")
	rot := appctlpb.LowEntropyMaskRotation(r)
	for n := 1; n <= c; n++ {
		enc := vNondetBytes("enc", 8)
		dec, err := decodeLowEntropyPayload(enc, n, vMode(mode), h, rot)
		if err != nil {
			continue
		}
		vAssert(bits.OnesCount32(h) == ones, "accepted => mask weight is the mode's")
		vAssert(vRefValidRotation(int(r)), "accepted => rotation is in the documented set")
		vCanonCheck(mode, n, enc, h, rot, dec)
	}
}

func vH_C17_canon1_m32() { vCanon1(1) }
func vH_C17_canon1_m40() { vCanon1(2) }
func vH_C17_canon1_m48() { vCanon1(3) }
func vH_C17_canon1_m56() { vCanon1(4) }

func vCanonN(mode int, maxN int) {
	c, ones := vRefModeC(mode)
	h := vNondetU32("h")
	vAssume(bits.OnesCount32(h) == ones)
	r := vNondetU8("rot")
	rot := appctlpb.LowEntropyMaskRotation(r)
	vAssume(isValidLowEntropyRotation(rot))
	vStubMode, vStubInitial, vStubRotation, vStubArgsOK = mode, mathext.RepeatUint32(h), rot, true
	for n := 1; n <= maxN; n++ {
		chunks := (n + c - 1) / c
		enc := vNondetBytes("enc", chunks*8)
		dec, err := decodeLowEntropyPayload(enc, n, vMode(mode), h, rot)
		if err != nil {
			continue
		}
		vCanonCheck(mode, n, enc, h, rot, dec)
	}
	// inconsistent lengths are rejected
	el := vNondetInt("enclen")
	n2 := vNondetInt("n2")
	vAssume(el >= 0 && el <= 48 && n2 >= 1 && n2 <= 24)
	_, err := decodeLowEntropyPayload(vNondetBytes("enc2", 48)[:el], n2, vMode(mode), h, rot)
	if err == nil {
		vAssert(el == ((n2+c-1)/c)*8, "accepted => encoded length = ceil(N/C)*8")
	}
}

func vH_C17_canonN_m32() { vCanonN(1, 9) }
func vH_C17_canonN_m40() { vCanonN(2, 11) }
func vH_C17_canonN_m48() { vCanonN(3, 13) }
func vH_C17_canonN_m56() { vCanonN(4, 15) }

// validateLowEntropyDataAckMetadata accepts exactly the mutually consistent
// (type, mode, mask weight, rotation, payloadLen, extractedPayloadLen) tuples
func vH_C17_validate_metadata() {
	das := &dataAckStruct{
		baseStruct:             baseStruct{protocol: vNondetU8("protocol")},
		lowEntropyMode:         vNondetU8("mode"),
		payloadLen:             vNondetU16("payloadLen"),
		lowEntropyMask:         vNondetU32("mask"),
		extractedPayloadLen:    vNondetU16("extractedLen"),
		lowEntropyMaskRotation: vNondetU8("rotation"),
	}
	err := validateLowEntropyDataAckMetadata(das)
	c, ones := vRefModeC(int(das.lowEntropyMode))
	ok := (das.protocol == 10 || das.protocol == 11) && c != 0 && bits.OnesCount32(das.lowEntropyMask) == ones &&
		vRefValidRotation(int(das.lowEntropyMaskRotation)) && int(das.extractedPayloadLen) <= 32768
	if ok {
		n := int(das.extractedPayloadLen)
		if n == 0 {
			ok = das.payloadLen == 0
		} else {
			ok = int(das.payloadLen) == ((n+c-1)/c)*8
		}
	}
	vAssert((err == nil) == ok, "metadata accepted <=> type, mode, mask weight, rotation and the two lengths are mutually consistent")
}

// quick-tier cuts of the multi-chunk harnesses: lengths 1..9 / 1..8 in mode 56
// (C = 7: one full chunk, the chunk boundary, a partial second chunk)
func vH_C17_roundtripQ_m56() { vRoundTripN(4, 9) }
func vH_C17_canonQ_m56()     { vCanonN(4, 8) }
func vH_C17_canonQ3_m56() { vCanonN(4, 3) }
