package protocol

import (
	"time"

	"github.com/enfein/mieru/v3/pkg/appctl/appctlpb"
	"github.com/enfein/mieru/v3/pkg/cipher"
	"github.com/enfein/mieru/v3/pkg/common"
	"github.com/enfein/mieru/v3/pkg/metrics"
	"github.com/enfein/mieru/v3/pkg/protocol/serveruser"
)

// ---- H19.3: quotas bind exactly the user who exceeded them ----
//
// The per-user counters are replaced by ARBITRARY window totals: the k-th
// DeltaBetween query returns the symbolic value vDeltaVals[k] and records the
// window it was asked for.  The reference decision is written from the
// property: a user is over quota iff for SOME quota of its own policy the
// traffic (upload + download) inside that quota's window exceeds the allowance.
var vDeltaVals [4]int64
var vDeltaT1, vDeltaT2 [4]time.Time
var vDeltaCalls int

func vStubDeltaBetween(c *metrics.Counter, t1, t2 time.Time) int64 {
	k := vDeltaCalls
	vDeltaCalls++
	if k < 4 {
		vDeltaT1[k], vDeltaT2[k] = t1, t2
		return vDeltaVals[k]
	}
	return 0
}

func vStubGetMetricGroup(name string) *metrics.MetricGroup { return &metrics.MetricGroup{} }
func vStubGetMetric(g *metrics.MetricGroup, name string) (metrics.Metric, bool) {
	return &metrics.Counter{}, true
}

func vQuotaPolicy(nq int, days, mbs *[2]int32) serveruser.Policy {
	u := &appctlpb.User{}
	name := "u"
	u.Name = &name
	for i := 0; i < nq; i++ {
		d, m := days[i], mbs[i]
		u.Quotas = append(u.Quotas, &appctlpb.Quota{Days: &d, Megabytes: &m})
	}
	return serveruser.BuildPolicies(map[string]*appctlpb.User{"u": u})["u"]
}

func vQuotaSetup(s *Session, nq int) (over bool) {
	var days, mbs [2]int32
	for i := 0; i < 2; i++ {
		mbs[i] = vNondetI32("quota.megabytes")
		vAssume(mbs[i] >= 0)
		switch vNondetU8("quota.days.choice") & 3 { // window lengths are case-split (symbolic x constant multiplication in ns does not bit-blast)
		case 0:
			days[i] = 1
		case 1:
			days[i] = 7
		case 2:
			days[i] = 30
		default:
			days[i] = 365
		}
	}
	pol := vQuotaPolicy(nq, &days, &mbs)
	name := "u"
	s.userName.Store(&name)
	s.userPolicy.Store(&pol)
	vDeltaCalls = 0
	for k := 0; k < 4; k++ {
		vDeltaVals[k] = vNondetI64("window.bytes")
		vAssume(vDeltaVals[k] >= 0 && vDeltaVals[k] < 1<<50)
	}
	for i := 0; i < nq; i++ {
		if (vDeltaVals[2*i]+vDeltaVals[2*i+1])/1048576 > int64(mbs[i]) {
			over = true
		}
	}
	vQDays = days
	return over
}

var vQDays [2]int32

func vH_C19_check_quota() {
	s := vNewSession(7, false, common.StreamTransport)
	nq := int(vNondetU8("quotas"))
	vAssume(nq <= 2)
	over := false
	for c := 0; c <= 2; c++ {
		if c == nq {
			over = vQuotaSetup(s, c)
		}
	}
	ok, _ := s.checkQuota("u")
	vAssert(ok == !over, "refused iff SOME quota window of the user's own policy is exceeded (each window judged on its own traffic)")
	vAssert(vDeltaCalls == 2*nq || !ok, "each quota consults upload and download exactly once")
	// another user's name never matches this policy
	ok2, err2 := s.checkQuota("v")
	vAssert(ok2 && err2 != nil, "a policy is never applied to a different user name")
}

// The window consulted for a quota of D days is exactly the last D*24h, for
// upload and download alike (window lengths concrete per case).
func vH_C19_quota_window() {
	for _, d := range [...]int32{1, 7, 30, 365} {
		s := vNewSession(7, false, common.StreamTransport)
		days, mbs := [2]int32{d, 0}, [2]int32{vNondetI32("megabytes"), 0}
		vAssume(mbs[0] >= 0)
		pol := vQuotaPolicy(1, &days, &mbs)
		name := "u"
		s.userName.Store(&name)
		s.userPolicy.Store(&pol)
		vDeltaCalls = 0
		vDeltaVals = [4]int64{}
		ok, _ := s.checkQuota("u")
		vAssert(ok && vDeltaCalls == 2, "within quota, upload and download consulted once each")
		w := time.Duration(d) * 24 * time.Hour
		vAssert(vDeltaT2[0].Sub(vDeltaT1[0]) == w && vDeltaT2[1].Sub(vDeltaT1[1]) == w, "the window consulted is the quota's own number of days, for upload and download alike")
		vAssert(vDeltaT2[0].Equal(vDeltaT2[1]) || vDeltaT2[1].After(vDeltaT2[0]), "windows end at the current instant")
	}
}

// The refusal itself: the open-session request of a user over quota sets the
// quota status, queues no open-session response, closes the session, and the
// piggybacked early payload is NOT handed to the application; a user within
// every allowance is answered and its payload delivered.
func vH_C19_quota_refusal() {
	tr := common.StreamTransport
	if vNondetBool("packet") {
		tr = common.PacketTransport
	}
	s := vNewSession(7, false, tr)
	s.forwardStateTo(sessionAttached)
	over := vQuotaSetup(s, 1)
	var bc cipher.BlockCipher = &vFakeBlock{user: "u"}
	pl := vNondetBytes("early", 2)
	seg := &segment{metadata: &sessionStruct{baseStruct: baseStruct{protocol: uint8(openSessionRequest)}, sessionID: 7, seq: 0, payloadLen: 2}, payload: pl, transport: tr, block: bc}
	vOutputs = nil
	err := s.input(seg)
	vAssert(err == nil, "open-session request processed")
	closed := false
	select {
	case <-s.closedChan:
		closed = true
	default:
	}
	buf := make([]byte, 4)
	if over {
		vAssert(s.status == statusQuotaExhausted, "refusal carries the quota status")
		vAssert(closed, "a refused session is closed")
		for i := 0; i < 3; i++ {
			if i < len(vOutputs) {
				vAssert(vOutputs[i].Protocol() != openSessionResponse, "no open-session response is sent on a refused session")
			}
		}
		vAssert(vModelOf(s.sendQueue).n == 0, "nothing stays queued for a refused session")
		n, _ := s.Read(buf)
		vAssert(n == 0, "nothing is relayed on a refused session: the early payload is not handed to the application")
	} else {
		vAssert(!closed && s.status == statusOK, "a user within every allowance is not refused")
		sq := vModelOf(s.sendQueue)
		vAssert(sq.n == 1 && sq.items[0].Protocol() == openSessionResponse, "it is answered with an open-session response")
		n, rerr := s.Read(buf)
		vAssert(rerr == nil && n == 2 && buf[0] == pl[0] && buf[1] == pl[1], "and its early payload is delivered")
	}
}

// ---- H7.4: every session of an authenticated TCP connection is the user's ----
//
// User discovery runs once per TCP connection, on its first segment; the
// underlay remembers the authenticated user's policy (commitServerUser-
// Authentication).  A LATER open-session request on the same connection carries
// no pending authentication - the session it creates must still be attributed
// to that user: same policy snapshot, so its quota binds.
func vH_C07_later_session_keeps_policy() {
	u := &StreamUnderlay{baseUnderlay: *newBaseUnderlay(false, 1400, nil), conn: &vFakeConn{}}
	var days, mbs [2]int32
	days[0], mbs[0] = 1, vNondetI32("megabytes")
	vAssume(mbs[0] >= 0)
	u.serverUserPolicy = vQuotaPolicy(1, &days, &mbs) // committed when the first segment authenticated
	sid := vNondetU32("sid")
	vAssume(sid != 0)
	var bc cipher.BlockCipher = &vFakeBlock{user: "u"}
	seg := &segment{metadata: &sessionStruct{baseStruct: baseStruct{protocol: uint8(openSessionRequest)}, sessionID: sid, seq: 0}, transport: common.StreamTransport, block: bc}
	err := u.onOpenSessionRequest(seg)
	vAssert(err == nil, "the later session is opened")
	v, ok := u.sessionMap.Load(sid)
	vAssert(ok, "it is registered")
	s := v.(*Session)
	p := s.userPolicy.Load()
	vAssert(p != nil && p.Name() == "u", "a later session of the connection carries the authenticated user's policy")
	vAssert(p != nil && len(p.Quotas()) == 1 && p.Quotas()[0].Megabytes() == mbs[0], "with the user's own quotas (so the quota binds on every session of the connection)")
}
