package protocol

import (
	"context"
	"errors"
	"io"
	"time"

	"github.com/enfein/mieru/v3/pkg/appctl/appctlpb"
	"github.com/enfein/mieru/v3/pkg/cipher"
	"github.com/enfein/mieru/v3/pkg/common"
	"github.com/enfein/mieru/v3/pkg/protocol/serveruser"
	"github.com/enfein/mieru/v3/pkg/replay"
	"github.com/enfein/mieru/v3/pkg/stderror"
)

// ---- H10.2: a peer that HOLDS a valid credential sends hostile segments (TCP) ----
//
// vOracleCipher: every Decrypt either fails or returns ARBITRARY plaintext of
// the right length - the attacker can encrypt whatever it likes, so decrypted
// metadata and payload bytes are unconstrained.  Encrypt writes nothing.
type vOracleCipher struct{ user string }

var vOracleLowEntropy bool
var vOracleScript []byte // if set: the next metadata the oracle returns (then arbitrary again)
var vOracleFirstMeta []byte // the first metadata the oracle handed out (harnesses may constrain it afterwards)

func (b *vOracleCipher) Encrypt(dst, plaintext []byte) error                 { return nil }
func (b *vOracleCipher) EncryptWithNonce(dst, nonce, plaintext []byte) error { return nil }
func (b *vOracleCipher) Decrypt(ciphertext []byte) ([]byte, error) {
	if len(ciphertext) < 16 || vNondetBool("oracle.fail") {
		return nil, vTimeoutErr{}
	}
	if len(ciphertext) == 48 {
		if vOracleScript != nil {
			m := vOracleScript
			vOracleScript = nil
			return m, nil
		}
		m := vNondetBytes("oracle.meta", 32)
		vAssume(vOracleLowEntropy || (m[0] != 10 && m[0] != 11)) // low-entropy data types: separate harness (64-step bit loops)
		if vOracleFirstMeta == nil {
			vOracleFirstMeta = m
		}
		return m, nil
	}
	out := make([]byte, len(ciphertext)-16)
	return out, nil
}
func (b *vOracleCipher) DecryptWithNonce(ciphertext, nonce []byte) ([]byte, error) {
	return b.Decrypt(ciphertext)
}
func (b *vOracleCipher) DecryptStatelessTo(ciphertext, dst []byte) ([]byte, error) {
	return b.Decrypt(ciphertext)
}
func (b *vOracleCipher) NonceSize() int                                 { return 24 }
func (b *vOracleCipher) Overhead() int                                  { return 16 }
func (b *vOracleCipher) Clone() cipher.BlockCipher                      { c := *b; return &c }
func (b *vOracleCipher) CloneStatelessFast() cipher.BlockCipher         { c := *b; return &c }
func (b *vOracleCipher) SetImplicitNonceMode(enable bool)               {}
func (b *vOracleCipher) IsStateless() bool                              { return false }
func (b *vOracleCipher) BlockContext() cipher.BlockContext              { return cipher.BlockContext{UserName: b.user} }
func (b *vOracleCipher) SetBlockContext(bc cipher.BlockContext)         { b.user = bc.UserName }
func (b *vOracleCipher) NoncePattern() *appctlpb.NoncePattern           { return nil }
func (b *vOracleCipher) SetNoncePattern(pattern *appctlpb.NoncePattern) {}

// One readOneSegment of an established TCP underlay (client or server) whose
// peer holds the credential: whatever the decrypted metadata says and however
// the stream ends, the result is a segment or an error whose type the event
// loop accepts (it panics on NO_ERROR / UNKNOWN_ERROR), and the parser never
// panics itself.
func vH_C10_stream_hostile_segment() {
	l := vNondetInt("len")
	vAssume(l >= 0 && l <= 70000)
	in := make([]byte, l) // only its length matters (vStubReadFullLen)
	conn := &vFakeConn{in: in}
	isClient := vNondetBool("isClient")
	u := &StreamUnderlay{baseUnderlay: *newBaseUnderlay(isClient, 1400, nil), conn: conn}
	u.recv = &vOracleCipher{user: "mallory"}
	seg, err := u.readOneSegment()
	if err != nil {
		et := stderror.GetErrorType(err)
		vAssert(et != stderror.NO_ERROR && et != stderror.UNKNOWN_ERROR, "every error of readOneSegment carries a type the event loop accepts (else it panics)")
		vAssert(seg == nil, "error => no segment")
	} else if seg != nil {
		vAssert(seg.metadata != nil, "a returned segment has metadata")
		p := uint8(seg.metadata.Protocol())
		vAssert(p >= 2 && p <= 11, "only the documented protocol types 2..11 are passed on")
		vAssert(conn.pos <= l, "never reads past the stream")
	}
}

// The whole server event loop fed by such a peer: it ends with an error or
// keeps going, it never panics (typed-error assertions, session dispatch on
// arbitrary ids and types, close requests for unknown sessions included).
func vH_C10_stream_hostile_loop() {
	l := vNondetInt("len")
	vAssume(l >= 0 && l <= 110)
	in := make([]byte, l)
	conn := &vFakeConn{in: in}
	u := &StreamUnderlay{baseUnderlay: *newBaseUnderlay(false, 1400, nil), conn: conn, sessionCleanTicker: time.NewTicker(sessionCleanInterval)}
	u.recv = &vOracleCipher{user: "mallory"}
	err := u.RunEventLoop(context.Background())
	vAssert(err != nil, "the loop ends when the stream does")
	vAssert(conn.closed, "the connection is closed")
}

// the replay cache is replaced by an arbitrary answer here (its own law is C06 H6.1)
func vStubIsDuplicateAny(c *replay.ReplayCache, data []byte, tag string) bool { return vNondetBool("replay.dup") }

// io.ReadFull on the fake connection, lengths only: the bytes read are
// irrelevant where every Decrypt is an oracle, so nothing is copied.
func vStubReadFullLen(r io.Reader, buf []byte) (int, error) {
	c := r.(*vFakeConn)
	rem := len(c.in) - c.pos
	if rem >= len(buf) {
		c.pos += len(buf)
		return len(buf), nil
	}
	c.pos += rem
	if rem == 0 {
		return 0, io.EOF
	}
	return rem, io.ErrUnexpectedEOF
}

// ---- H5.2 / H6.2 / H10.3: one datagram at a UDP server without sessions ----
//
// The datagram is arbitrary bytes of length 0, 71, 72 or 75.  User discovery is
// replaced by its outcome: it fails (the sender knows no registered
// credential), or it succeeds for a user whose cipher then decrypts whatever it
// is given into ARBITRARY metadata / payload (a hostile registered user).  The
// replay cache answers arbitrarily.
var vDiscoveryOK bool

func vStubNewSessionDiscovery(u *PacketUnderlay, encryptedMeta []byte, source serveruser.Source) (cipher.BlockCipher, []byte, serveruser.Authentication, error) {
	if !vDiscoveryOK {
		return nil, nil, serveruser.Authentication{}, vTimeoutErr{}
	}
	m := vNondetBytes("oracle.meta", 32)
	if vOracleScript != nil {
		m, vOracleScript = vOracleScript, nil
	}
	vAssume(m[0] != 10 && m[0] != 11)
	return &vOracleCipher{user: "mallory"}, m, serveruser.VNewAuthentication("mallory"), nil
}

func vH_C05_packet_one_datagram() {
	for _, n := range [...]int{0, 71, 72, 75} {
		pc := &vFakePacketConn{in: [][]byte{vNondetBytes("datagram", n)}}
		u := &PacketUnderlay{baseUnderlay: *newBaseUnderlay(false, 1400, nil), conn: pc}
		vDiscoveryOK = vNondetBool("discovery.ok")
		vDupSeen, vDupAnswer = false, false
		seg, addr, err := u.readOneSegment()
		vAssert(err == nil, "a bad datagram is never an error of the underlay (it is dropped)")
		vAssert(pc.writes == 0, "reading a datagram never sends one")
		vAssert(u.SessionCount() == 0, "reading a datagram creates no session")
		if !vDiscoveryOK || n < 72 {
			vAssert(seg == nil && addr == nil, "no registered credential (or a datagram shorter than a header) => nothing is passed on")
		}
		if vDupSeen && vDupAnswer {
			vAssert(seg == nil, "a datagram the replay cache reports (same bytes from another address) is dropped even though it decrypts")
		}
		if seg != nil {
			p := uint8(seg.metadata.Protocol())
			vAssert(vRefClientSends(p), "a new-session datagram is passed on only if a client may send its type (the server's own output reflected back is dropped)")
			if seg.serverUserAuthentication.Valid() {
				sid, _ := seg.SessionID()
				vAssert(p == 2 && sid != 0, "a pending authentication is attached only to an open-session request with a non-zero id")
			}
			vAssert(seg.block != nil, "the authenticating cipher travels with the segment")
		}
	}
}

var vDupSeen, vDupAnswer bool

func vStubIsDuplicateRecord(c *replay.ReplayCache, data []byte, tag string) bool {
	first := !vDupSeen
	vDupSeen = true
	vDupAnswer = vNondetBool("replay.dup")
	if first {
		vDupFirst = vDupAnswer
	}
	return vDupAnswer
}

// ---- H6.2 (TCP): a replayed first segment draws no reply and opens nothing ----
//
// The first read of a server connection is reported by the replay cache (a
// byte-exact copy of traffic already accepted).  Whether or not it still
// decrypts - a genuine copy does: discovery succeeds, metadata arbitrary - the
// event loop ends with a REPLAY error, not a byte is written, no session is
// created, nothing reaches the application, no source-user association is
// recorded (no pending authentication survives).
func vStubServerInitOracle(t *StreamUnderlay, encryptedMeta []byte) ([]byte, serveruser.Authentication, error) {
	if !vDiscoveryOK {
		return nil, serveruser.Authentication{}, vTimeoutErr{}
	}
	t.recv = &vOracleCipher{user: "alice"}
	m := vNondetBytes("oracle.meta", 32)
	vAssume(m[0] != 10 && m[0] != 11)
	return m, serveruser.VNewAuthentication("alice"), nil
}

func vH_C06_stream_replay() {
	l := vNondetInt("len")
	vAssume(l >= 72 && l <= 200)
	conn := &vFakeConn{in: make([]byte, l)}
	server := &StreamUnderlay{baseUnderlay: *newBaseUnderlay(false, 1400, nil), conn: conn}
	vDiscoveryOK = vNondetBool("discovery.ok")
	vDupSeen, vDupAnswer = false, false
	seg, err := server.readOneSegment() // vStubIsDuplicateFirst: the first read IS reported as a replay
	vAssert(seg == nil && err != nil, "a replayed first segment is never passed on")
	vAssert(stderror.GetErrorType(err) == stderror.REPLAY_ERROR, "it ends the connection with a replay error, whether or not it decrypts (the event loop then drains and closes without writing: H5.1)")
	vAssert(conn.writes == 0 && len(conn.out) == 0, "not a single byte is sent in reply to a replay")
	vAssert(server.SessionCount() == 0 && len(server.readySessions) == 0, "a replay opens no session and reaches no application")
	vAssert(server.send == nil, "no send cipher is derived for a replayed connection")
}

var vDupFirst bool

// the first query is reported as a replay, later ones arbitrarily
func vStubIsDuplicateFirst(c *replay.ReplayCache, data []byte, tag string) bool {
	if !vDupSeen {
		vDupSeen = true
		return true
	}
	return vNondetBool("replay.dup")
}


// ---- H1.4: a segment for a closed session does not take the underlay down ----
//
// A server TCP underlay carries several sessions.  Session 7 is closed but
// still registered (it stays in the session map until the periodic clean-up).
// The peer sends one more data segment for it, then the stream ends.  The
// event loop must drop that segment and go on reading - it ends only because
// the stream does (a NETWORK error from the next read), so the sibling sessions
// on this connection are not torn down by the stray segment.
func vH_C01_stray_segment_for_closed_session() {
	conn := &vFakeConn{in: make([]byte, 48)}
	// the periodic clean-up does not fire during this call (a ticker that never ticks):
	// the closed session is still registered, which is the situation of interest
	u := &StreamUnderlay{baseUnderlay: *newBaseUnderlay(false, 1400, nil), conn: conn, sessionCleanTicker: &time.Ticker{C: make(chan time.Time)}}
	u.recv = &vOracleCipher{user: "alice"}
	s := vNewSession(7, false, common.StreamTransport)
	s.forwardStateTo(sessionAttached)
	s.forwardStateTo(sessionEstablished)
	s.forwardStateTo(sessionClosed)
	s.closeRequested.Store(true)
	close(s.closedChan)
	s.recvChan = make(chan *segment, 1) // its input channel is full (nobody drains a closed session):
	s.recvChan <- nil                   // delivery can only observe "session closed", also natively
	u.sessionMap.Store(uint32(7), s)
	// a payload-less data segment for session 7: type, id and lengths concrete,
	// timestamp / sequence / ack / window arbitrary
	m := vNondetBytes("meta", 32)
	m[0], m[1] = uint8(dataClientToServer), 0
	m[6], m[7], m[8], m[9] = 0, 0, 0, 7
	m[21], m[22], m[23], m[24] = 0, 0, 0, 0
	vOracleScript = m
	err := u.RunEventLoop(context.Background())
	vAssert(err != nil, "the loop ends when the stream does")
	et := stderror.GetErrorType(errors.Unwrap(err)) // RunEventLoop wraps the typed error of readOneSegment with fmt.Errorf
	vAssume(et != stderror.PROTOCOL_ERROR && et != stderror.CRYPTO_ERROR) // the segment itself was well-formed and timely
	vAssert(et == stderror.NETWORK_ERROR, "a data segment for a closed session is dropped and the loop reads on: it ends with the stream (network error), not because of the stray segment")
	vAssert(conn.writes == 0, "nothing is written for a segment of a known, closed session")
}


// ---- H6.2b (UDP): a recorded datagram re-sent from another address is dropped ----
//
// One 72-byte datagram (metadata only) reaches a UDP server that has no
// session for its source address.  The replay cache reports it (same bytes seen
// from a different address), and it still decrypts as a new session - it is a
// byte-exact copy of genuine traffic.  Whatever its type (open request, data,
// ack - type and lengths concrete per case, every other field arbitrary), it is
// dropped: nothing is passed on, nothing is sent, no session appears.
func vH_C06_packet_replay() {
	for _, proto := range [...]uint8{uint8(openSessionRequest), uint8(dataClientToServer), uint8(ackClientToServer), uint8(closeSessionRequest)} {
		pc := &vFakePacketConn{in: [][]byte{make([]byte, 72)}}
		u := &PacketUnderlay{baseUnderlay: *newBaseUnderlay(false, 1400, nil), conn: pc}
		m := vNondetBytes("meta", 32)
		m[0], m[1] = proto, 0
		if proto >= 6 {
			m[21], m[22], m[23], m[24] = 0, 0, 0, 0 // no padding, no payload
		} else {
			m[15], m[16], m[17] = 0, 0, 0 // session segment: payloadLen 0, suffixLen 0
		}
		vOracleScript = m
		vDiscoveryOK = true
		vDupSeen = false
		seg, addr, err := u.readOneSegment() // vStubIsDuplicateFirst: the datagram IS reported as a replay
		vOracleScript = nil
		vAssert(err == nil, "a replayed datagram is not an underlay error")
		vAssert(seg == nil && addr == nil, "a datagram the replay cache reports is dropped although it decrypts as a new session")
		vAssert(pc.writes == 0 && u.SessionCount() == 0, "it draws no reply and opens no session")
	}
}
