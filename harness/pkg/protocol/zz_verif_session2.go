package protocol

import (
	"github.com/enfein/mieru/v3/pkg/cipher"
	"github.com/enfein/mieru/v3/pkg/common"
)

// Reference direction tables, written from docs/protocol.md (protocol type
// numbering 2..11): which types a CLIENT may send and which a SERVER may send.
func vRefClientSends(p uint8) bool {
	return p == 2 || p == 4 || p == 5 || p == 6 || p == 8 || p == 10
}
func vRefServerSends(p uint8) bool {
	return p == 3 || p == 4 || p == 5 || p == 7 || p == 9 || p == 11
}

func vArbMetadata(tag string, proto uint8) metadata {
	if proto >= 2 && proto <= 5 {
		return &sessionStruct{baseStruct: baseStruct{protocol: proto}, sessionID: vNondetU32(tag + ".sid"), seq: vNondetU32(tag + ".seq"),
			statusCode: vNondetU8(tag + ".status"), payloadLen: 0, suffixLen: vNondetU8(tag + ".suffix")}
	}
	return &dataAckStruct{baseStruct: baseStruct{protocol: proto}, sessionID: vNondetU32(tag + ".sid"), seq: vNondetU32(tag + ".seq"),
		unAckSeq: vNondetU32(tag + ".unAckSeq"), windowSize: vNondetU16(tag + ".window"), fragment: vNondetU8(tag + ".fragment")}
}

// H5.3 the two gates in front of server session creation, for EVERY protocol
// byte: only types a client may send pass the direction gate (a server's own
// output reflected back at it never does), and only an openSessionRequest with
// a non-zero id may create a session.
func vH_C05_server_gates() {
	proto := vNondetU8("protocol")
	seg := &segment{metadata: vArbMetadata("m", proto), transport: common.PacketTransport}
	derr := validateServerSegmentDirection(seg)
	vAssert((derr == nil) == vRefClientSends(proto), "direction gate passes exactly the client-to-server types of the protocol document")
	nerr := validateNewServerSessionSegment(seg)
	sid, _ := seg.SessionID()
	vAssert((nerr == nil) == (proto == 2 && sid != 0), "only an open-session request with a non-zero session id may create a server session")
	vAssert(validateServerSegmentDirection(nil) != nil && validateNewServerSessionSegment(nil) != nil, "nil segments are refused")
	vAssert(validateServerSegmentDirection(&segment{}) != nil && validateNewServerSessionSegment(&segment{}) != nil, "segments without metadata are refused")
}

// H4.4 / H1.4 direction and ownership in Session.input: a segment whose type
// the peer of this session cannot legitimately send (wrong direction, undefined
// type) is refused with an error and leaves the session state untouched -
// nothing is queued for the application, nothing acknowledged, nothing sent.
func vH_C04_input_direction() {
	isClient := vNondetBool("isClient")
	tr := common.StreamTransport
	if vNondetBool("packet") {
		tr = common.PacketTransport
	}
	s := vNewSession(7, isClient, tr)
	s.forwardStateTo(sessionAttached)
	if vNondetBool("established") {
		s.forwardStateTo(sessionEstablished)
	}
	r0 := vNondetU32("nextRecv")
	vAssume(r0 < 0xfffffff0)
	s.nextRecv.Store(r0)
	proto := vNondetU8("protocol")
	md := vArbMetadata("m", proto)
	seg := &segment{metadata: md, transport: tr}
	if proto >= 6 {
		seg.payload = vNondetBytes("payload", 1)
		md.(*dataAckStruct).payloadLen = 1
	}
	vOutputs = nil
	err := s.input(seg)
	legit := (isClient && vRefServerSends(proto)) || (!isClient && vRefClientSends(proto))
	if !legit {
		vAssert(err != nil, "a segment type the peer cannot send is refused with an error")
		vAssert(vModelOf(s.recvQueue).n == 0 && vModelOf(s.recvBuf).n == 0, "a refused segment is not queued for the application")
		vAssert(s.nextRecv.Load() == r0, "a refused segment is not acknowledged")
		vAssert(len(vOutputs) == 0 && vModelOf(s.sendQueue).n == 0, "a refused segment triggers no transmission")
		vAssert(!s.clientUseLowEntropy.Load(), "a refused segment does not switch the session to low entropy")
		closed := false
		select {
		case <-s.closedChan:
			closed = true
		default:
		}
		vAssert(!closed, "a refused segment does not close the session")
	}
}

// H2.4 the peer's advertised receive window is taken from EVERY accepted
// data or ack segment on UDP (an ack that finds nothing in flight - e.g. the
// heartbeat that reopens a closed window - included), and acknowledged segments
// (seq < unAckSeq), only those, leave the send buffer (C13 H13.5).
func vH_C02_window_update() {
	isClient := vNondetBool("isClient")
	s := vNewSession(7, isClient, common.PacketTransport)
	s.forwardStateTo(sessionAttached)
	s.forwardStateTo(sessionEstablished)
	s.remoteWindowSize.Store(uint32(vNondetU16("old.window")))
	ns := vNondetU32("nextSend")
	vAssume(ns >= 4 && ns < 0xfffffff0)
	s.nextSend.Store(ns)
	k := int(vNondetU8("inflight"))
	vAssume(k <= 2)
	var infl [2]*segment
	for i := 0; i < 2; i++ {
		if i < k {
			g := vDataSeg("sb", isClient, 7, 1)
			g.metadata.(*dataAckStruct).seq = ns - 3 + uint32(i)
			infl[i] = g
			s.sendBuf.Insert(g)
		}
	}
	var seg *segment
	isAck := vNondetBool("ack")
	if vNondetBool("sessionSegment") {
		// a (duplicate / late) open-session response at a client, open-session
		// request at a server: a session segment carries no acknowledgement - the
		// send buffer and the peer's window must stay as they are
		p := uint8(openSessionRequest)
		if isClient {
			p = uint8(openSessionResponse)
		}
		sseg := &segment{metadata: &sessionStruct{baseStruct: baseStruct{protocol: p}, sessionID: 7, seq: vNondetU32("s.seq")}, transport: common.PacketTransport}
		w0 := s.remoteWindowSize.Load()
		err := s.input(sseg)
		vAssert(err == nil, "session segment accepted")
		sb := vModelOf(s.sendBuf)
		vAssert(sb.n == k, "a session segment acknowledges nothing: every unacknowledged segment stays in the send buffer (and stays eligible for retransmission)")
		for i := 0; i < 2; i++ {
			if i < k {
				vAssert(sb.items[i] == infl[i], "the send buffer is untouched")
			}
		}
		vAssert(s.remoteWindowSize.Load() == w0, "a session segment does not change the peer's advertised window")
		return
	}
	if isAck {
		p := uint8(ackServerToClient)
		if !isClient {
			p = uint8(ackClientToServer)
		}
		seg = &segment{metadata: &dataAckStruct{baseStruct: baseStruct{protocol: p}, sessionID: 7, seq: vNondetU32("ack.seq"), unAckSeq: vNondetU32("ack.unAckSeq"),
			windowSize: vNondetU16("ack.window")}, transport: common.PacketTransport}
	} else {
		seg = vDataSeg("in", !isClient, 7, 1)
	}
	das := seg.metadata.(*dataAckStruct)
	vAssume(das.unAckSeq <= ns) // a peer cannot acknowledge what was never sent (larger values only empty the buffer)
	err := s.input(seg)
	vAssert(err == nil, "a well-formed data/ack segment is accepted")
	vAssert(s.remoteWindowSize.Load() == uint32(das.windowSize), "the send window follows the window advertised by every accepted data/ack segment (also with nothing in flight)")
	sb := vModelOf(s.sendBuf)
	left := 0
	for i := 0; i < 2; i++ {
		if i < k {
			gone := true
			for j := 0; j < vTreeK; j++ {
				if j < sb.n && sb.items[j] == infl[i] {
					gone = false
				}
			}
			vAssert(gone == (vSeq(infl[i]) < das.unAckSeq), "exactly the segments below the peer's cumulative ack leave the send buffer")
			if !gone {
				left++
			}
		}
	}
	vAssert(sb.n == left, "nothing else enters or leaves the send buffer")
}

// H2.5 a server answers an open-session request by QUEUING the response in the
// reliable send path (send queue -> send buffer -> retransmission) with the
// next sequence number; it is not fired once past the retransmission machinery.
func vH_C02_open_response_reliable() {
	tr := common.StreamTransport
	if vNondetBool("packet") {
		tr = common.PacketTransport
	}
	s := vNewSession(7, false, tr)
	s.forwardStateTo(sessionAttached)
	ns := s.nextSend.Load()
	seg := &segment{metadata: &sessionStruct{baseStruct: baseStruct{protocol: uint8(openSessionRequest)}, sessionID: 7, seq: 0}, transport: tr}
	var bc cipher.BlockCipher = &vFakeBlock{user: "u"}
	seg.block = bc
	vOutputs = nil
	err := s.input(seg)
	vAssert(err == nil, "open-session request accepted")
	sq := vModelOf(s.sendQueue)
	vAssert(sq.n == 1 && sq.items[0].Protocol() == openSessionResponse, "the open-session response is queued in the send queue (retransmittable), exactly once")
	vAssert(vSeq(sq.items[0]) == ns && s.nextSend.Load() == ns+1, "it takes the next sequence number, which is consumed")
	vAssert(len(vOutputs) == 0, "it does not bypass the queue")
	vAssert(s.isState(sessionEstablished), "the server session is established")
}

// H15.2 a waiter parked on back-pressure is released by a close that lands
// WHILE it waits.  The receive queue stays full (segmentTree.Remaining is
// redirected: always 0); the environment - another goroutine calling Close -
// closes the session during the second look at the queue.  The real
// waitForRecvQueueSpace must give up right afterwards instead of polling on.
var vWaitSession *Session
var vWaitLooks int

func vStubRemainingFull(t *segmentTree) int {
	vWaitLooks++
	vAssert(vWaitLooks <= 3, "a waiter parked on a full queue is released once the session is closed (it does not keep polling)")
	if vWaitLooks == 2 && vWaitSession != nil {
		close(vWaitSession.closedChan)
	}
	return 0
}

func vH_C15_wait_released_by_close() {
	isClient := vNondetBool("isClient")
	tr := common.StreamTransport
	if vNondetBool("packet") {
		tr = common.PacketTransport
	}
	s := vNewSession(7, isClient, tr)
	s.forwardStateTo(sessionAttached)
	s.forwardStateTo(sessionEstablished)
	vWaitSession, vWaitLooks = s, 0
	ok := s.waitForRecvQueueSpace()
	vAssert(!ok, "the waiter reports that the session went away")
	vAssert(vWaitLooks >= 2, "the close landed while it was parked")
}
