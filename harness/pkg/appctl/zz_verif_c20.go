package appctl

// H20.3 share links: malformed input is an error, never a panic.
func vH_C20_url_to_config_nopanic() {
	s := vNondetString("url", 10)
	_, _ = URLToClientConfig(s)
}
