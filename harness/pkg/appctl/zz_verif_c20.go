package appctl

import (
	"fmt"
	"net/url"
	"strings"
)

// H20.3 share links: malformed input is an error, never a panic.
func vH_C20_url_to_config_nopanic() {
	s := vNondetString("url", 10)
	_, _ = URLToClientConfig(s)
}

func vH_C20_url_to_config_nopanic7() {
	s := vNondetString("url", 7)
	_, _ = URLToClientConfig(s)
}

// length case split: every string of exactly n bytes for n = 0..7 (every string
// shorter than the 8-byte "mieru://" prefix), bytes symbolic
func vH_C20_url_to_config_lens() {
	for n := 0; n <= 7; n++ {
		b := vNondetBytes("url", n)
		_, _ = URLToClientConfig(string(b))
	}
}

// Contract stub of net/url.Parse, written from the package documentation and
// RFC 3986 as implemented by net/url: only what URLToClientConfig consumes
// (Scheme, Opaque, error) is modelled precisely; authority, path and query
// details are left arbitrary.  Used by the quick harness; the thorough harness
// runs the real parser symbolically.
func vStubURLParse(rawURL string) (*url.URL, error) {
	for i := 0; i < len(rawURL); i++ {
		if rawURL[i] < 0x20 || rawURL[i] == 0x7f {
			return nil, fmt.Errorf("net/url: invalid control character in URL")
		}
	}
	u := rawURL
	if i := strings.IndexByte(u, '#'); i >= 0 {
		u = u[:i]
	}
	out := &url.URL{}
	// scheme = ALPHA *( ALPHA / DIGIT / "+" / "-" / "." ) ":"
	rest := u
	for i := 0; i < len(u); i++ {
		c := u[i]
		if (c >= 'a' && c <= 'z') || (c >= 'A' && c <= 'Z') {
			continue
		}
		if (c >= '0' && c <= '9') || c == '+' || c == '-' || c == '.' {
			if i == 0 {
				break
			}
			continue
		}
		if c == ':' {
			if i == 0 {
				return nil, fmt.Errorf("missing protocol scheme")
			}
			out.Scheme = strings.ToLower(u[:i])
			rest = u[i+1:]
		}
		break
	}
	if i := strings.IndexByte(rest, '?'); i >= 0 {
		rest = rest[:i]
	}
	if !strings.HasPrefix(rest, "/") && out.Scheme != "" {
		out.Opaque = rest
		return out, nil
	}
	if vNondetBool("url.authority.error") {
		return nil, fmt.Errorf("net/url: invalid authority or path")
	}
	return out, nil
}

func vH_C20_url_to_config_contract() {
	s := vNondetString("url", 12)
	_, _ = URLToClientConfig(s)
}
