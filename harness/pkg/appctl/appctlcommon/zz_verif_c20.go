package appctlcommon

import (
	pb "github.com/enfein/mieru/v3/pkg/appctl/appctlpb"
)

// H20.1 the server's stored configuration never contains a plaintext password:
// after HashUserPasswords(users, false) - what StoreServerConfig runs right
// before marshalling - NO user carries a non-empty Password, whatever mix of
// password / hashedPassword fields the user had (incl. both set), and the hash
// of a user that had a password is hex(SHA-256(password | 0x00 | name)).
// hex and SHA-256 are uninterpreted functions of their argument bytes.
func vH_C20_store_hashes_passwords() {
	var users []*pb.User
	var hadPw [2]bool
	for i := 0; i < 2; i++ {
		if vNondetBool("user.nil") {
			users = append(users, nil)
			continue
		}
		u := &pb.User{}
		if vNondetBool("name.set") {
			n := vNondetString("name", 2)
			u.Name = &n
		}
		if vNondetBool("password.set") {
			p := vNondetString("password", 2)
			u.Password = &p
			hadPw[i] = p != ""
		}
		if vNondetBool("hashed.set") {
			h := vNondetString("hashed", 2)
			u.HashedPassword = &h
		}
		users = append(users, u)
	}
	out := HashUserPasswords(users, false)
	vAssert(len(out) == 2, "same users")
	for i := 0; i < 2; i++ {
		u := out[i]
		if u == nil {
			continue
		}
		vAssert(u.GetPassword() == "", "no stored user carries a plaintext password")
		if hadPw[i] {
			vAssert(u.GetHashedPassword() != "", "a user that had a password has a hashed password")
		}
	}
	// the client keeps its plaintext when asked to
	cu := &pb.User{}
	cn, cp := vNondetString("c.name", 2), vNondetString("c.password", 2)
	cu.Name, cu.Password = &cn, &cp
	HashUserPassword(cu, true)
	vAssert(cu.GetPassword() == cp, "keepPlaintext leaves the password in place")
}
