package replay

import "time"

// H6.1 ReplayCache.IsDuplicate against an ideal bounded-memory set, over every
// history of vSteps calls from a fresh cache: symbolic capacity 1..3, symbolic
// interval, items from a 4-letter alphabet (1-byte data, so FNV-1a signatures
// are injective), arbitrary non-decreasing clock with an arbitrary value at
// every time.Now inside a call.
//
// Ghost state per item e: seen, the clock just BEFORE its most recent call
// (lower bound of its recording time), and which other items were offered
// since.  Claims, with the tag feature off (EmptyTag):
//   (i)  never offered before            => IsDuplicate == false
//   (ii) offered before, upper bound of its age < interval, fewer than
//        `capacity` distinct other items offered since => IsDuplicate == true
const vSteps = 5

const vMaxInterval = 3600 * time.Second
const vAlpha = 4

func vCacheBMC(withTags bool, steps int) { vCacheBMC2(withTags, steps, false) }

func vCacheBMC2(withTags bool, steps int, fixedInterval bool) {
	capacity := vNondetInt("capacity")
	vAssume(capacity >= 1 && capacity <= 3)
	interval := time.Duration(vNondetI64("interval"))
	vAssume(interval >= 1 && interval <= vMaxInterval)
	if fixedInterval {
		interval = 1000
	}
	c := NewCache(capacity, interval)
	var seen [vAlpha]bool
	var recorded [vAlpha]time.Time
	var since [vAlpha][vAlpha]bool
	// tagged ghost state: the most recent call on e that was ACCEPTED (returned
	// false, i.e. recorded e under its tag), its time and the items offered since
	var acc [vAlpha]bool
	var accTag [vAlpha]string
	var accTime [vAlpha]time.Time
	var accSince [vAlpha][vAlpha]bool
	for step := 0; step < steps; step++ {
		item := vNondetU8("item")
		vAssume(item < vAlpha)
		tag := EmptyTag
		if withTags {
			switch vNondetU8("tag") % 3 {
			case 1:
				tag = "a"
			case 2:
				tag = "b"
			}
		}
		before := vNow()
		dup := c.IsDuplicate([]byte{item}, tag)
		after := vNow()
		for e := 0; e < vAlpha; e++ {
			if int(item) != e {
				continue
			}
			if !seen[e] {
				vAssert(!dup, "never-seen item is not reported as a replay")
			} else if !withTags {
				others := 0
				for x := 0; x < vAlpha; x++ {
					if x != e && since[e][x] {
						others++
					}
				}
				if after.Sub(recorded[e]) < interval && others < capacity {
					vAssert(dup, "item offered less than the interval ago and followed by fewer distinct items than the capacity is reported")
				}
			}
			if withTags && acc[e] {
				others := 0
				for x := 0; x < vAlpha; x++ {
					if x != e && accSince[e][x] {
						others++
					}
				}
				differs := accTag[e] == EmptyTag || tag == EmptyTag || accTag[e] != tag
				if after.Sub(accTime[e]) < interval && others < capacity && differs {
					vAssert(dup, "item accepted under one tag less than the interval ago, followed by fewer distinct items than the capacity, is reported when offered under another tag (every time)")
				}
			}
			if !dup {
				acc[e] = true
				accTag[e] = tag
				accTime[e] = before
				for x := 0; x < vAlpha; x++ {
					accSince[e][x] = false
				}
			}
			// ghost update: e was (re)offered now; others of e reset
			seen[e] = true
			recorded[e] = before
			for x := 0; x < vAlpha; x++ {
				since[e][x] = false
			}
		}
		for e := 0; e < vAlpha; e++ {
			if int(item) != e {
				since[e][item] = true
				accSince[e][item] = true
			}
		}
		cur, prev := c.Sizes()
		vAssert(cur <= capacity && prev <= capacity && cur >= 1, "each generation holds at most `capacity` entries")
	}
}

func vH_C06_cache_bmc()      { vCacheBMC(false, vSteps) }
func vH_C06_cache_bmc_tags() { vCacheBMC(true, 4) }
func vH_C06_cache_bmc_tagsF() { vCacheBMC2(true, 4, true) }
func vH_C06_cache_bmc_tags5() { vCacheBMC(true, vSteps) }

// disabled cache (capacity 0 or nil) never reports a replay and never panics
func vH_C06_cache_disabled() {
	var nilc *ReplayCache
	vAssert(!nilc.IsDuplicate([]byte{1}, EmptyTag), "nil cache reports nothing")
	c := NewCache(0, time.Second)
	vAssert(!c.IsDuplicate([]byte{1}, EmptyTag) && !c.IsDuplicate([]byte{1}, EmptyTag), "capacity 0 disables the cache")
}

// Signatures are the items themselves (FNV-1a of a 1-byte item is an injective
// function of the byte; reasoning about the 64-bit multiplication by the FNV
// prime is what made the unstubbed harness undecidable in 120 s).
func vStubSignature(c *ReplayCache, data []byte) uint64 { return uint64(data[0]) }
