package socks5

import (
	"bytes"
	"context"
	"net"

	"github.com/enfein/mieru/v3/apis/model"
	"github.com/enfein/mieru/v3/pkg/appctl/appctlpb"
)

// H12.3 reader + decision + dispatch composed: the real Server.serverServeConn
// (readRequest -> FindAction -> handleRequest / reject) on an ARBITRARY request
// byte string from a user without the loopback / private permission.  The
// connect / associate handler (stubbed: it would dial) is reached only for a
// destination that is not local; in particular no request the READER accepts
// can dodge the decision (e.g. through a version byte the decision function
// treats as "not for me").
type vUserConn struct {
	vFakeConn
	user string
}

func (c *vUserConn) UserName() string { return c.user }

var vHandled *model.Request
var vForwarded bool

func vStubHandleRequest(s *Server, ctx context.Context, req *model.Request, proxyConn net.Conn) error {
	vHandled = req
	return nil
}

func vStubHandleForwarding(s *Server, req *model.Request, conn net.Conn, proxy *appctlpb.EgressProxy) error {
	vForwarded = true
	return nil
}

func vServeCase(n int) {
	in := vNondetBytes("req", n)
	allowPrivate, allowLoopback := vNondetBool("allowPrivate"), vNondetBool("allowLoopback")
	users := map[string]*appctlpb.User{}
	if vNondetBool("knownUser") {
		users["alice"] = &appctlpb.User{AllowPrivateIP: &allowPrivate, AllowLoopbackIP: &allowLoopback}
	} else {
		allowPrivate, allowLoopback = false, false
	}
	conn := &vUserConn{user: "alice"}
	conn.in = in
	s := &Server{config: &Config{Users: users, Egress: &appctlpb.Egress{}, AuthOpts: Auth{ClientSideAuthentication: true}}}
	vHandled, vForwarded = nil, false
	_ = s.serverServeConn(conn)
	vAssert(!vForwarded, "without egress rules nothing is forwarded to another proxy")
	if vHandled == nil {
		return
	}
	req := vHandled
	// the destination the handler would dial: IP preferred over FQDN (AddrSpec.String)
	ip := req.DstAddr.IP
	if ip4 := ip.To4(); ip4 != nil {
		a := []byte(ip4)
		if vIs4Loopback(a) || vIs4Unspec(a) {
			vAssert(allowLoopback, "a loopback / unspecified IPv4 destination is dialled only for a user granted loopback access")
		}
		if vIs4Private(a) {
			vAssert(allowPrivate, "a private IPv4 destination is dialled only for a user granted private access")
		}
	}
	if req.DstAddr.FQDN == "" && len(ip) == 0 {
		vAssert(allowLoopback, "an empty host is dialled only for a user granted loopback access")
	}
	vAssert(len(req.Raw) >= 1 && req.Raw[0] == 5, "only SOCKS version 5 requests are served")
}

func vH_C12_serve_conn() {
	vServeCase(10) // CONNECT / ASSOCIATE with an IPv4 destination
	vServeCase(7)  // domain of length 0
}

// bytes.Buffer as used by Request.ReadFromSocks5 (io.TeeReader into a Buffer,
// then Bytes()): a plain append-only byte slice per buffer.
var vBufs = map[*bytes.Buffer][]byte{}

func vStubBufWrite(b *bytes.Buffer, p []byte) (int, error) {
	vBufs[b] = append(vBufs[b], p...)
	return len(p), nil
}
func vStubBufBytes(b *bytes.Buffer) []byte { return vBufs[b] }

// H12.3r the reader's half of the reader/decision contract: FindAction treats
// input whose first byte is not 5 as "not for me" (DIRECT) and relies on the
// request reader to have refused it.  The real Server.readRequest on an
// arbitrary 10-byte string: success => version 5, Raw is exactly the bytes
// read (what the decision is taken on), and the parsed destination is the one
// those bytes name (what is dialled).
func vH_C12_read_request() {
	in := vNondetBytes("req", 10)
	conn := &vFakeConn{in: in}
	s := &Server{config: &Config{}}
	req, err := s.readRequest(conn)
	if err != nil {
		return
	}
	vAssert(in[0] == 5, "only SOCKS version 5 requests are accepted by the reader (the decision function skips everything else)")
	vAssert(len(req.Raw) >= 4 && req.Raw[0] == in[0] && req.Raw[1] == in[1] && req.Raw[3] == in[3], "the decision is taken on the bytes that were read")
	vAssert(req.Command == in[1], "command as sent")
	if in[3] == 1 {
		ip4 := req.DstAddr.IP.To4()
		vAssert(len(req.Raw) == 10 && ip4 != nil && ip4[0] == in[4] && ip4[1] == in[5] && ip4[2] == in[6] && ip4[3] == in[7], "the destination dialled is the IPv4 address in the request")
		vAssert(req.DstAddr.Port == int(in[8])<<8|int(in[9]), "the port dialled is the one in the request")
		for i := 0; i < 10; i++ {
			vAssert(req.Raw[i] == in[i], "Raw = the request bytes")
		}
	}
}
