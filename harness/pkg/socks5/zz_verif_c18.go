package socks5

// H18.3 / H10.5 parseSocks5UDPDatagram on an arbitrary datagram (IPv4, IPv6
// and domain-name headers, any payload incl. empty, malformed and truncated
// input): no panic; success <=> a well-formed header; the header returned is
// the datagram's own header bytes, the payload is everything after it (same
// boundary, same bytes), the address is the one the header names; and the
// header is a COPY - the relay loop keeps it per destination while it reuses
// its single read buffer for the next datagram, so a header that aliased the
// buffer would label later replies with another destination's address.
func vUDPParseCase(n int) {
	pkt := vNondetBytes("pkt", n)
	d, err := parseSocks5UDPDatagram(pkt)
	// reference header length from the address type byte (RFC 1928 section 7)
	hl := -1
	if n > 6 && pkt[0] == 0 && pkt[1] == 0 && pkt[2] == 0 {
		switch pkt[3] {
		case 1:
			hl = 4 + 4 + 2
		case 4:
			hl = 4 + 16 + 2
		case 3:
			hl = 4 + 1 + int(pkt[4]) + 2
		}
	}
	wellFormed := hl >= 0 && hl <= n
	if err != nil {
		vAssert(d == nil, "error => no datagram")
		vAssert(!wellFormed, "a datagram with a well-formed header is accepted")
		return
	}
	vAssert(wellFormed, "accepted => RSV 00 00, FRAG 00, a known address type and a complete address")
	vAssert(len(d.Header) == hl && len(d.Payload) == n-hl, "header / payload boundary is where the address ends")
	for i := 0; i < n; i++ {
		if i < hl {
			vAssert(d.Header[i] == pkt[i], "header bytes are the datagram's own")
		} else {
			vAssert(d.Payload[i-hl] == pkt[i], "payload bytes are delivered unchanged")
		}
	}
	port := int(pkt[hl-2])<<8 | int(pkt[hl-1])
	vAssert(d.Addr.Port == port, "destination port is the header's")
	if pkt[3] == 1 {
		ip4 := d.Addr.IP.To4()
		vAssert(ip4 != nil && ip4[0] == pkt[4] && ip4[1] == pkt[5] && ip4[2] == pkt[6] && ip4[3] == pkt[7], "destination IPv4 address is the header's")
	}
	if pkt[3] == 3 {
		vAssert(len(d.Addr.FQDN) == int(pkt[4]), "destination name has the header's length")
	}
	// the relay loop reuses its read buffer: the remembered header must not change with it
	if hl > 4 {
		old := d.Header[4]
		pkt[4] = old + 1
		vAssert(d.Header[4] == old, "the remembered header does not alias the read buffer (replies keep their own destination's address)")
		pkt[4] = old
	}
}

func vH_C18_udp_parse() {
	for _, n := range [...]int{0, 6, 7, 10, 11, 12, 22, 24} {
		vUDPParseCase(n)
	}
}

// ---- C12 (known finding C12-c2): relayed UDP datagrams and the egress policy ----
//
// The per-datagram relay step of a UDP association: parseUDPAssociateDatagram
// turns the SOCKS5 UDP header of a datagram into the address the server then
// sends it to (RunUDPAssociateLoop / runUDPAssociateDatagramLoop call nothing
// else in between).  Neither function has a user or policy parameter, so for a
// user WITHOUT loopback / private access a datagram addressed to a loopback or
// private IPv4 address is relayed all the same.
func vH_C12_udp_datagram_policy() {
	pkt := vNondetBytes("pkt", 12) // RSV RSV FRAG ATYP=1 a.b.c.d port payload(2)
	vAssume(pkt[0] == 0 && pkt[1] == 0 && pkt[2] == 0 && pkt[3] == 1)
	dst, payload, err := parseUDPAssociateDatagram(pkt, nil)
	if err != nil {
		return
	}
	vAssert(len(payload) == 2 && dst != nil, "datagram accepted for relay")
	ip4 := dst.IP.To4()
	vAssert(ip4 != nil, "IPv4 destination")
	a := []byte(ip4)
	local := vIs4Loopback(a) || vIs4Unspec(a) || vIs4Private(a)
	vAssert(!local, "a datagram of a user without loopback / private access is not relayed to a loopback, unspecified or private address")
}
