package socks5

import (
	"context"


	"github.com/enfein/mieru/v3/pkg/appctl/appctlpb"
	"github.com/enfein/mieru/v3/pkg/egress"
)

// Reference predicates written from the property text (C12).

func vLower(c byte) byte {
	if c >= 'A' && c <= 'Z' {
		return c + 32
	}
	return c
}

func vEqFold(b []byte, s string) bool {
	if len(b) != len(s) {
		return false
	}
	for i := 0; i < len(s); i++ {
		if vLower(b[i]) != s[i] {
			return false
		}
	}
	return true
}

var vLocalNames = []string{"localhost", "localhost4", "localhost.localdomain", "localhost4.localdomain4",
	"localhost6", "ip6-localhost", "ip6-loopback", "localhost6.localdomain6"}

func vIs4Loopback(a []byte) bool { return a[0] == 127 }
func vIs4Unspec(a []byte) bool  { return a[0] == 0 && a[1] == 0 && a[2] == 0 && a[3] == 0 }
func vIs4Private(a []byte) bool {
	return a[0] == 10 || (a[0] == 172 && a[1]&0xf0 == 16) || (a[0] == 192 && a[1] == 168)
}
func vIsMapped(a []byte) bool {
	for i := 0; i < 10; i++ {
		if a[i] != 0 {
			return false
		}
	}
	return a[10] == 0xff && a[11] == 0xff
}
func vAllZero(a []byte, n int) bool {
	for i := 0; i < n; i++ {
		if a[i] != 0 {
			return false
		}
	}
	return true
}

// vClassify returns (loopbackClass, privateClass) for a well-formed request's
// destination: loopback class = loopback IP in any binary form, unspecified or
// empty host, well-known local names in any letter case.
func vClassify(data []byte) (bool, bool) {
	switch data[3] {
	case 1:
		a := data[4:8]
		return vIs4Loopback(a) || vIs4Unspec(a), vIs4Private(a)
	case 4:
		a := data[4:20]
		if vIsMapped(a) {
			return vIs4Loopback(a[12:16]) || vIs4Unspec(a[12:16]), vIs4Private(a[12:16])
		}
		lo := vAllZero(a, 15) && a[15] == 1
		return lo || vAllZero(a, 16), a[0]&0xfe == 0xfc
	case 3:
		n := int(data[4])
		if n == 0 {
			return true, false
		}
		name := data[5 : 5+n]
		for _, w := range vLocalNames {
			if vEqFold(name, w) {
				return true, false
			}
		}
	}
	return false, false
}

const vMaxFQDN = 24

// H12.1 FindAction, no egress rules: a user without the permission never gets
// anything but REJECT for a local destination; permitted users and public
// destinations are not rejected by this stage.  One harness per address type;
// FQDN lengths are case-split (0..24, every well-known name fits).
func vFindAction(data []byte) {
	hasEnvUser, knownUser := vNondetBool("envUser"), vNondetBool("knownUser")
	allowPrivate, allowLoopback := vNondetBool("allowPrivate"), vNondetBool("allowLoopback")
	hasP, hasL := vNondetBool("hasAllowPrivateField"), vNondetBool("hasAllowLoopbackField")
	users := map[string]*appctlpb.User{}
	if knownUser {
		u := &appctlpb.User{}
		if hasP {
			u.AllowPrivateIP = &allowPrivate
		}
		if hasL {
			u.AllowLoopbackIP = &allowLoopback
		}
		users["alice"] = u
	}
	env := map[string]string{}
	if hasEnvUser {
		env["user"] = "alice"
	}
	s := &Server{config: &Config{Users: users, Egress: &appctlpb.Egress{}}}
	act := s.FindAction(context.Background(), egress.Input{Protocol: appctlpb.ProxyProtocol_SOCKS5_PROXY_PROTOCOL, Data: data, Env: env})
	loop, priv := vClassify(data)
	mayPrivate := hasEnvUser && knownUser && hasP && allowPrivate
	mayLoopback := hasEnvUser && knownUser && hasL && allowLoopback
	if loop && !mayLoopback {
		vAssert(act.Action == appctlpb.EgressAction_REJECT, "loopback/unspecified/local-name destination without the permission => REJECT")
	}
	if priv && !mayPrivate {
		vAssert(act.Action == appctlpb.EgressAction_REJECT, "private destination without the permission => REJECT")
	}
	if !loop && !priv {
		vAssert(act.Action == appctlpb.EgressAction_DIRECT, "public destination is not rejected (no rules configured => DIRECT)")
	}
	if (loop && mayLoopback) || (priv && mayPrivate) {
		vAssert(act.Action == appctlpb.EgressAction_DIRECT, "permitted user is not rejected")
	}
}

func vReqHeader(data []byte, atyp byte) {
	vAssume(data[0] == 5 && (data[1] == 1 || data[1] == 3) && data[3] == atyp)
}

func vH_C12_findaction_ipv4() {
	data := vNondetBytes("req", 10)
	vReqHeader(data, 1)
	vFindAction(data)
}

func vH_C12_findaction_ipv6() {
	data := vNondetBytes("req", 22)
	vReqHeader(data, 4)
	vFindAction(data)
}

func vH_C12_findaction_fqdn() {
	for n := 0; n <= vMaxFQDN; n++ {
		data := vNondetBytes("req", 5+n+2)
		vReqHeader(data, 3)
		vAssume(int(data[4]) == n)
		vFindAction(data)
	}
}

// H12.2 egress rules: first match wins, after the local-destination stage.
// Three rules with concrete, overlapping CIDR ranges (a /24 inside a /16, then
// "*") and SYMBOLIC actions; every IPv4 destination; a user with or without
// the private/loopback permissions.
func vArbAction(tag string) appctlpb.EgressAction {
	switch vNondetU8(tag) % 3 {
	case 0:
		return appctlpb.EgressAction_DIRECT
	case 1:
		return appctlpb.EgressAction_REJECT
	}
	return appctlpb.EgressAction_PROXY
}

func vH_C12_egress_rules() {
	vEgressRules(false)
	vEgressRules(true)
}

func vEgressRules(withStar bool) {
	data := vNondetBytes("req", 10)
	vReqHeader(data, 1)
	a := data[4:8]
	a1, a2, a3 := vArbAction("act"), vArbAction("act"), vArbAction("act")
	rules := []*appctlpb.EgressRule{
		{IpRanges: []string{"198.51.100.0/24"}, Action: &a1},
		{IpRanges: []string{"198.51.0.0/16", "203.0.113.0/24"}, Action: &a2},
	}
	if withStar {
		rules = append(rules, &appctlpb.EgressRule{IpRanges: []string{"*"}, Action: &a3})
	}
	allowPrivate, allowLoopback := vNondetBool("allowPrivate"), vNondetBool("allowLoopback")
	users := map[string]*appctlpb.User{"alice": {AllowPrivateIP: &allowPrivate, AllowLoopbackIP: &allowLoopback}}
	s := &Server{config: &Config{Users: users, Egress: &appctlpb.Egress{Rules: rules}}}
	act := s.FindAction(context.Background(), egress.Input{Protocol: appctlpb.ProxyProtocol_SOCKS5_PROXY_PROTOCOL, Data: data, Env: map[string]string{"user": "alice"}})
	loop, priv := vClassify(data)
	if (loop && !allowLoopback) || (priv && !allowPrivate) {
		vAssert(act.Action == appctlpb.EgressAction_REJECT, "local destinations are refused before any rule is consulted (a DIRECT or PROXY rule does not re-open them)")
		return
	}
	want := appctlpb.EgressAction_DIRECT
	if withStar {
		want = a3
	}
	if (a[0] == 198 && a[1] == 51) || (a[0] == 203 && a[1] == 0 && a[2] == 113) {
		want = a2
	}
	if a[0] == 198 && a[1] == 51 && a[2] == 100 {
		want = a1
	}
	vAssert(act.Action == want, "egress rules are applied in order, first match wins; no match => DIRECT")
}
