package socks5

// H11.1 handleAuthentication on an arbitrary byte stream and an arbitrary
// credential configuration: success only after a configured user/password
// pair was presented (RFC 1929 sub-negotiation), or - with no credentials
// configured - through the no-authentication method only.

const vMaxMethods = 6
const vMaxCredLen = 3

func vCred(tag string) Credential {
	return Credential{User: vNondetString(tag+".user", vMaxCredLen), Password: vNondetString(tag+".pass", vMaxCredLen)}
}

func vAuthHarness(ncred int) {
	var creds []Credential
	for i := 0; i < ncred; i++ {
		creds = append(creds, vCred("cred"))
	}
	s := &Server{config: &Config{AuthOpts: Auth{IngressCredentials: creds}}}
	total := 2 + vMaxMethods + 3 + 2*vMaxCredLen + 2
	l := vNondetInt("len")
	vAssume(l >= 0 && l <= total)
	in := vNondetBytes("in", total)[:l]
	conn := &vFakeConn{in: in}
	vAssume(l < 2 || int(in[1]) <= vMaxMethods) // bound: at most vMaxMethods offered methods
	err := s.handleAuthentication(conn)
	if err != nil {
		return
	}
	// ---- accepted: reconstruct what an RFC 1928/1929 client must have sent ----
	vAssert(l >= 3 && in[0] == 5 && in[1] >= 1, "accepted => version 5 and at least one method")
	nm := int(in[1])
	vAssert(l >= 2+nm, "accepted => all offered methods were read")
	if ncred == 0 {
		vAssert(len(conn.out) == 2 && conn.out[0] == 5 && conn.out[1] == 0, "no credentials configured => reply is 'no authentication' only")
		offered := false
		for i := 0; i < vMaxMethods; i++ {
			if i < nm && in[2+i] == 0 {
				offered = true
			}
		}
		vAssert(offered, "no credentials configured => accepted only if the client offered method 0x00")
		return
	}
	// credentials configured: the server must have selected user/password and verified a configured pair
	vAssert(len(conn.out) == 4 && conn.out[0] == 5 && conn.out[1] == 2 && conn.out[2] == 1 && conn.out[3] == 0,
		"credentials configured => method reply 05 02 then status 01 00")
	o := 2 + nm
	vAssert(l >= o+2 && in[o] == 1, "credentials configured => sub-negotiation version 1 was read")
	ul := int(in[o+1])
	vAssert(l >= o+2+ul+1, "user name fully read")
	pl := int(in[o+2+ul])
	vAssert(l >= o+3+ul+pl, "password fully read")
	match := false
	for _, c := range creds {
		if len(c.User) == ul && len(c.Password) == pl {
			same := true
			for k := 0; k < vMaxCredLen; k++ {
				if k < ul && c.User[k] != in[o+2+k] {
					same = false
				}
				if k < pl && c.Password[k] != in[o+3+ul+k] {
					same = false
				}
			}
			if same {
				match = true
			}
		}
	}
	vAssert(match, "credentials configured => the presented user/password equals a configured pair")
}

func vH_C11_auth_nocred() { vAuthHarness(0) }
func vH_C11_auth_1cred()  { vAuthHarness(1) }
func vH_C11_auth_2cred()  { vAuthHarness(2) }

func vH_dbg() {
	l := vNondetInt("len")
	vAssume(l >= 0 && l <= 19)
	in := vNondetBytes("in", 19)[:l]
	conn := &vFakeConn{in: in}
	k := vNondetU8("k")
	buf := make([]byte, k)
	n, _ := conn.Read(buf)
	vAssert(n <= 16, "n<=16")
}

// Shaped variant: the stream is a complete RFC 1928/1929 negotiation whose
// field lengths are case-split (1..2 methods, user and password 1..2 bytes),
// all byte values symbolic.  Everything is at a concrete offset, so the solver
// only reasons about contents: which method bytes, which user, which password.
func vAuthShaped(ncred int) {
	var creds []Credential
	for i := 0; i < ncred; i++ {
		creds = append(creds, vCred("cred"))
	}
	for nm := 1; nm <= 2; nm++ {
		for ul := 1; ul <= 2; ul++ {
			for pl := 1; pl <= 2; pl++ {
				s := &Server{config: &Config{AuthOpts: Auth{IngressCredentials: creds}}}
				in := vNondetBytes("in", 2+nm+3+ul+pl)
				o := 2 + nm
				vAssume(in[0] == 5 && int(in[1]) == nm && int(in[o+1]) == ul && int(in[o+2+ul]) == pl)
				conn := &vFakeConn{in: in}
				err := s.handleAuthentication(conn)
				if err != nil {
					continue
				}
				if ncred == 0 {
					vAssert(len(conn.out) == 2 && conn.out[0] == 5 && conn.out[1] == 0, "no credentials configured => reply is 'no authentication' only")
					continue
				}
				vAssert(len(conn.out) == 4 && conn.out[0] == 5 && conn.out[1] == 2 && conn.out[2] == 1 && conn.out[3] == 0,
					"credentials configured => method reply 05 02 then status 01 00")
				vAssert(in[o] == 1, "credentials configured => sub-negotiation version 1")
				match := false
				for _, c := range creds {
					if len(c.User) == ul && len(c.Password) == pl {
						same := true
						for k := 0; k < ul; k++ {
							if c.User[k] != in[o+2+k] {
								same = false
							}
						}
						for k := 0; k < pl; k++ {
							if c.Password[k] != in[o+3+ul+k] {
								same = false
							}
						}
						if same {
							match = true
						}
					}
				}
				vAssert(match, "credentials configured => the presented user/password equals ONE configured pair")
			}
		}
	}
}

func vH_C11_shaped_nocred() { vAuthShaped(0) }
func vH_C11_shaped_1cred()  { vAuthShaped(1) }
func vH_C11_shaped_2cred()  { vAuthShaped(2) }

// Quick two-credential variant: both configured pairs have 1-byte user and
// 1-byte password (symbolic contents), the client presents a 1-byte user and
// password after offering 1 or 2 methods.  This keeps every string comparison
// one byte wide - the cross-entry case (user of one pair, password of the
// other) is still expressible - and is decided in seconds; the wider shapes are
// the thorough harness vH_C11_shaped_2cred.
func vH_C11_shaped_2cred_small() {
	var creds []Credential
	for i := 0; i < 2; i++ {
		u, p := vNondetBytes("cred.user", 1), vNondetBytes("cred.pass", 1)
		creds = append(creds, Credential{User: string(u), Password: string(p)})
	}
	for nm := 1; nm <= 2; nm++ {
		s := &Server{config: &Config{AuthOpts: Auth{IngressCredentials: creds}}}
		in := vNondetBytes("in", 2+nm+3+1+1)
		o := 2 + nm
		vAssume(in[0] == 5 && int(in[1]) == nm && in[o+1] == 1 && in[o+3] == 1)
		conn := &vFakeConn{in: in}
		if s.handleAuthentication(conn) != nil {
			continue
		}
		vAssert(len(conn.out) == 4 && conn.out[0] == 5 && conn.out[1] == 2 && conn.out[2] == 1 && conn.out[3] == 0,
			"credentials configured => method reply 05 02 then status 01 00")
		vAssert(in[o] == 1, "credentials configured => sub-negotiation version 1")
		m0 := creds[0].User[0] == in[o+2] && creds[0].Password[0] == in[o+4]
		m1 := creds[1].User[0] == in[o+2] && creds[1].Password[0] == in[o+4]
		vAssert(m0 || m1, "credentials configured => the presented user AND password equal ONE configured pair")
	}
}

// Empty fields: one configured credential (non-empty 1-byte user and password),
// the client presents a user of length 0..1 and a password of length 0..1
// (RFC 1929 asks for 1..255, the parser accepts 0): success => the presented
// pair equals the configured one - an unknown or empty user with an empty
// password is never let in.
func vH_C11_shaped_empty() {
	u, p := vNondetBytes("cred.user", 1), vNondetBytes("cred.pass", 1)
	creds := []Credential{{User: string(u), Password: string(p)}}
	for ul := 0; ul <= 1; ul++ {
		for pl := 0; pl <= 1; pl++ {
			s := &Server{config: &Config{AuthOpts: Auth{IngressCredentials: creds}}}
			in := vNondetBytes("in", 3+2+ul+1+pl)
			vAssume(in[0] == 5 && in[1] == 1 && int(in[4]) == ul && int(in[5+ul]) == pl)
			conn := &vFakeConn{in: in}
			if s.handleAuthentication(conn) != nil {
				continue
			}
			vAssert(ul == 1 && pl == 1 && in[5] == u[0] && in[7] == p[0], "credentials configured => only the configured (non-empty) pair is accepted")
		}
	}
}
