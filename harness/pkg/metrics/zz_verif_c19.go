package metrics

import (
	"time"

	pb "github.com/enfein/mieru/v3/pkg/metrics/metricspb"
)

// H19.1 one roll-up pass from an ARBITRARY valid history (inductive step).
// Representation invariant of Counter.history:
//   - sorted by time (non-strict), every delta > 0, labels valid,
//   - an entry labelled ROLL_UP_TO_X carries a time that is a multiple of X,
//   - value == sum of deltas.
// Claim: after doRollUp (any of the eight passes of rollUp, clock arbitrary and
// non-decreasing at every reading) the invariant holds again and the sum of
// deltas is unchanged.

const vHist = 3

func vGran(l pb.RollUpLabel) int64 {
	switch l {
	case pb.RollUpLabel_ROLL_UP_TO_SECOND:
		return 1000
	case pb.RollUpLabel_ROLL_UP_TO_MINUTE:
		return 60000
	case pb.RollUpLabel_ROLL_UP_TO_HOUR:
		return 3600000
	case pb.RollUpLabel_ROLL_UP_TO_DAY:
		return 86400000
	}
	return 1
}

func vValidHistory(h []*pb.History) bool {
	ok := true
	var prev int64
	for i, e := range h {
		l := e.GetRollUp()
		if l < pb.RollUpLabel_NO_ROLL_UP || l > pb.RollUpLabel_ROLL_UP_TO_DAY {
			ok = false
		}
		if e.GetDelta() <= 0 || e.GetDelta() > 1<<40 {
			ok = false
		}
		t := e.GetTimeUnixMilli()
		if t < 1577836800000 || t > 4102444800000 {
			ok = false
		}
		if t%vGran(l) != 0 {
			ok = false
		}
		if i > 0 && t < prev {
			ok = false
		}
		prev = t
	}
	return ok
}

func vSum(h []*pb.History) int64 {
	var s int64
	for _, e := range h {
		s += e.GetDelta()
	}
	return s
}

func vRollUpPass(pass int) {
	n := vNondetInt("n")
	vAssume(n >= 0 && n <= vHist)
	var hist []*pb.History
	for i := 0; i < vHist; i++ {
		if i < n {
			t, d := vNondetI64("t"), vNondetI64("delta")
			l := pb.RollUpLabel(vNondetI32("label"))
			hist = append(hist, &pb.History{TimeUnixMilli: &t, Delta: &d, RollUp: &l})
		}
	}
	vAssume(vValidHistory(hist))
	before := vSum(hist)
	c := &Counter{name: "c", timeSeries: true, history: hist, value: before}
	switch pass {
	case 0:
		c.doRollUp(pb.RollUpLabel_NO_ROLL_UP, pb.RollUpLabel_ROLL_UP_TO_SECOND, rollUpToSecond, time.Second)
	case 1:
		c.doRollUp(pb.RollUpLabel_ROLL_UP_TO_SECOND, pb.RollUpLabel_ROLL_UP_TO_SECOND, rollUpToSecond, time.Second)
	case 2:
		c.doRollUp(pb.RollUpLabel_ROLL_UP_TO_SECOND, pb.RollUpLabel_ROLL_UP_TO_MINUTE, rollUpSecondToMinute, time.Minute)
	case 3:
		c.doRollUp(pb.RollUpLabel_ROLL_UP_TO_MINUTE, pb.RollUpLabel_ROLL_UP_TO_MINUTE, rollUpSecondToMinute, time.Minute)
	}
	vAssert(len(c.history) <= n, "compaction never adds entries")
	vAssert(vSum(c.history) == before && c.value == before, "compaction preserves the total")
	vAssert(vValidHistory(c.history), "compaction keeps the history valid: ordered in time, positive deltas, label granularity")
}

func vH_C19_rollup_pass0() { vRollUpPass(0) }
func vH_C19_rollup_pass1() { vRollUpPass(1) }
func vH_C19_rollup_pass2() { vRollUpPass(2) }
func vH_C19_rollup_pass3() { vRollUpPass(3) }

// Focused order check: two (or three) un-rolled entries, first roll-up pass,
// clock arbitrary and non-decreasing at every reading inside the pass.
func vOrderedNoRollUp(k int) { vRollUpFocused(k, true) }

func vRollUpFocused(k int, checkOrder bool) {
	var hist []*pb.History
	var prev int64
	for i := 0; i < k; i++ {
		t, d := vNondetI64("t"), vNondetI64("delta")
		vAssume(t >= 1577836800000 && t <= 4102444800000 && t >= prev && d > 0 && d <= 1<<40)
		prev = t
		l := pb.RollUpLabel_NO_ROLL_UP
		hist = append(hist, &pb.History{TimeUnixMilli: &t, Delta: &d, RollUp: &l})
	}
	before := vSum(hist)
	c := &Counter{name: "c", timeSeries: true, history: hist, value: before}
	snap := ToMetricPB(c) // what a dump / export holds: it shares the history ENTRIES with the live counter
	c.doRollUp(pb.RollUpLabel_NO_ROLL_UP, pb.RollUpLabel_ROLL_UP_TO_SECOND, rollUpToSecond, time.Second)
	vAssert(vSum(c.history) == before, "compaction preserves the total")
	vAssert(snap.GetValue() == before && vSum(snap.History) == before, "a snapshot taken before the compaction still sums to its total (compaction does not write through shared entries)")
	var last int64
	for i, e := range c.history {
		if i > 0 && checkOrder {
			vAssert(e.GetTimeUnixMilli() >= last, "compaction never disorders the history in time")
		}
		last = e.GetTimeUnixMilli()
	}
	// a window never reports more than the total
	t1 := time.UnixMilli(vNondetI64("w1"))
	t2 := time.UnixMilli(vNondetI64("w2"))
	if !t2.Before(t1) {
		vAssert(c.DeltaBetween(t1, t2) <= before, "a window never reports more traffic than the total")
	}
}

func vH_C19_rollup_order2() { vOrderedNoRollUp(2) }
func vH_C19_rollup_total2() { vRollUpFocused(2, false) }
func vH_C19_rollup_total3() { vRollUpFocused(3, false) }
func vH_C19_rollup_order3() { vOrderedNoRollUp(3) }
