package mathext

// C17 H17.1/H17.2: characterisation lemmas for the portable PDEP/PEXT loops.

func vLsb(m uint64) uint64 { return m & -m }

// PDEP-R: f(x,0)=0 and f(x,m) = (x&1 ? lsb(m) : 0) | f(x>>1, m&(m-1))
func vH_C17_pdepGeneric_rec() {
	x := vNondetU64("x")
	m := vNondetU64("m")
	got := pdepGeneric(x, m)
	if m == 0 {
		vAssert(got == 0, "pdep(x,0)==0")
		return
	}
	var low uint64
	if x&1 != 0 {
		low = vLsb(m)
	}
	rest := pdepGeneric(x>>1, m&(m-1))
	vAssert(got == low|rest, "pdep recursion on lowest mask bit")
}

// PEXT-P1: PDEP(PEXT(x,m),m) == x & m  (PEXT is a right inverse of PDEP on the mask)
func vH_C17_pextGeneric_p1() {
	x := vNondetU64("x")
	m := vNondetU64("m")
	vAssert(pdepGeneric(pextGeneric(x, m), m) == x&m, "pdep(pext(x,m),m)==x&m")
}

// PEXT-P2: PEXT(x,m) has no bits at or above popcount(m)
func vH_C17_pextGeneric_p2() {
	x := vNondetU64("x")
	m := vNondetU64("m")
	r := pextGeneric(x, m)
	pc := vPopCount64(m)
	if pc < 64 {
		vAssert(r>>pc == 0, "pext(x,m)>>popcount(m)==0")
	}
}

// Direct equivalence of PDEP/PEXT with the bit-by-bit definition for masks of
// at most 32 significant bits (induction-free cross-check on a sub-domain).
func vRefPdep(x, mask uint64) uint64 {
	var r uint64
	k := uint(0)
	for i := uint(0); i < 64; i++ {
		if mask>>i&1 != 0 {
			r |= (x >> k & 1) << i
			k++
		}
	}
	return r
}

func vRefPext(x, mask uint64) uint64 {
	var r uint64
	k := uint(0)
	for i := uint(0); i < 64; i++ {
		if mask>>i&1 != 0 {
			r |= (x >> i & 1) << k
			k++
		}
	}
	return r
}

func vH_C17_pdep_direct32() {
	x := vNondetU64("x")
	m := vNondetU64("m")
	vAssume(m>>32 == 0)
	vAssert(pdepGeneric(x, m) == vRefPdep(x, m), "pdepGeneric == bit-by-bit PDEP (mask < 2^32)")
}

func vH_C17_pext_direct32() {
	x := vNondetU64("x")
	m := vNondetU64("m")
	vAssume(m>>32 == 0)
	vAssert(pextGeneric(x, m) == vRefPext(x, m), "pextGeneric == bit-by-bit PEXT (mask < 2^32)")
}

// The exported entry points dispatch to whichever implementation init chose.
func vH_C17_dispatch() {
	x := vNondetU64("x")
	m := vNondetU64("m")
	vAssert(RepeatUint32(uint32(x)) == (x&0xffffffff)<<32|(x&0xffffffff), "RepeatUint32")
	_ = m
}

// ---- hardware path: bit_amd64.s interpreted symbolically (SDM semantics) ----

func vH_C17_pdepBMI2_rec() {
	x := vNondetU64("x")
	m := vNondetU64("m")
	got := pdepBMI2(x, m)
	if m == 0 {
		vAssert(got == 0, "asm pdep(x,0)==0")
		return
	}
	var low uint64
	if x&1 != 0 {
		low = vLsb(m)
	}
	vAssert(got == low|pdepBMI2(x>>1, m&(m-1)), "asm pdep recursion on lowest mask bit")
}

func vH_C17_pextBMI2_p1() {
	x := vNondetU64("x")
	m := vNondetU64("m")
	vAssert(pdepBMI2(pextBMI2(x, m), m) == x&m, "asm pdep(pext(x,m),m)==x&m")
}

func vH_C17_pextBMI2_p2() {
	x := vNondetU64("x")
	m := vNondetU64("m")
	r := pextBMI2(x, m)
	pc := vPopCount64(m)
	if pc < 64 {
		vAssert(r>>pc == 0, "asm pext(x,m)>>popcount(m)==0")
	}
}

func vH_C17_pdep_go_eq_asm32() {
	x := vNondetU64("x")
	m := vNondetU64("m")
	vAssume(m>>32 == 0)
	vAssert(pdepGeneric(x, m) == pdepBMI2(x, m), "pdepGeneric == pdepBMI2 (mask < 2^32)")
}

func vH_C17_pext_go_eq_asm32() {
	x := vNondetU64("x")
	m := vNondetU64("m")
	vAssume(m>>32 == 0)
	vAssert(pextGeneric(x, m) == pextBMI2(x, m), "pextGeneric == pextBMI2 (mask < 2^32)")
}
