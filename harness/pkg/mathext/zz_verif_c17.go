package mathext

// C17 H17.1/H17.2: characterisation lemmas for the portable PDEP/PEXT loops.

func vLsb(m uint64) uint64 { return m & -m }

// PDEP-R: f(x,0)=0 and f(x,m) = (x&1 ? lsb(m) : 0) | f(x>>1, m&(m-1))
func vH_C17_pdepGeneric_rec() {
	x := vNondetU64("x")
	m := vNondetU64("m")
	got := pdepGeneric(x, m)
	if m == 0 {
		vAssert(got == 0, "pdep(x,0)==0")
		return
	}
	var low uint64
	if x&1 != 0 {
		low = vLsb(m)
	}
	rest := pdepGeneric(x>>1, m&(m-1))
	vAssert(got == low|rest, "pdep recursion on lowest mask bit")
}
