#!/bin/sh
# Builds the gosmt engine offline from /verif/engine into /verif/bin.
set -e
cd "$(dirname "$0")"
export GOFLAGS=-mod=mod GOPROXY=off GOSUMDB=off GOTOOLCHAIN=local CGO_ENABLED=0
mkdir -p bin evidence
(cd engine && go build -o ../bin/gosmt .)
echo "gosmt built"
