#!/bin/bash
# usage: tools/seed_eval.sh <seed-id> <property> <seed-out-dir> <demo-pkg-dir> "<test pkgs>" [check extra args]
# 1. confirms the seeded change independently in a scratch worktree
#    (demo passes without / fails with the change; build and package tests pass with it)
# 2. applies it to /repo, runs the property's check, reverts /repo
# 3. files the seed under /verif/seeded/<seed-id>/
set -u
ID=$1; PROP=$2; OUT=$3; PKG=$4; TESTPKGS=$5; EXTRA=${6:-}
export GOFLAGS=-mod=mod GOPROXY=off GOSUMDB=off GOTOOLCHAIN=local
W=/tmp/sv_$ID
rm -rf $W; git -C /repo worktree prune; git -C /repo worktree add -q --detach $W HEAD || exit 3
cp $OUT/demo_test.go $W/$PKG/zz_seed_demo_test.go
RUNPAT=$(grep -oE "^func (Test[A-Za-z0-9_]+)" $OUT/demo_test.go | awk '{print $2}' | paste -sd'|')
( cd $W && go test -vet=off -count=1 -run "^($RUNPAT)\$" ./$PKG/ > /tmp/sv_$ID.base.txt 2>&1 ); BASE=$?
( cd $W && git apply $OUT/patch.diff ) || { echo "patch does not apply"; git -C /repo worktree remove --force $W; exit 3; }
( cd $W && go build ./... > /tmp/sv_$ID.build.txt 2>&1 ); BUILD=$?
( cd $W && go test -vet=off -count=1 -run "^($RUNPAT)\$" ./$PKG/ > /tmp/sv_$ID.seed.txt 2>&1 ); SEED=$?
rm -f $W/$PKG/zz_seed_demo_test.go
( cd $W && go test -vet=off -count=1 $TESTPKGS > /tmp/sv_$ID.tests.txt 2>&1 ); TESTS=$?
git -C /repo worktree remove --force $W
echo "confirm: demo-on-unchanged exit=$BASE (want 0) build-with-change=$BUILD (want 0) demo-with-change=$SEED (want !=0) existing-tests-with-change=$TESTS (want 0)"
# run our check against it: on a scratch worktree with the change applied
# (VERIF_REPO), so that /repo itself is never disturbed by a long run
W2=/tmp/svc_$ID
rm -rf $W2; git -C /repo worktree prune; git -C /repo worktree add -q --detach $W2 HEAD || exit 3
( cd $W2 && git apply $OUT/patch.diff ) || { echo "patch does not apply"; git -C /repo worktree remove --force $W2; exit 3; }
( cd /verif && VERIF_REPO=$W2 timeout 3000 ./bin/gosmt check --property $PROP --noevidence $EXTRA > /tmp/sv_$ID.check.txt 2>&1 ); CHK=$?
git -C /repo worktree remove --force $W2
echo "check exit=$CHK"; grep -a -E "^VIOLATION|^INCONCLUSIVE|^property=" /tmp/sv_$ID.check.txt | cut -c1-260 | head -8
mkdir -p /verif/seeded/$ID
cp $OUT/patch.diff /verif/seeded/$ID/patch.diff; cp $OUT/demo_test.go /verif/seeded/$ID/demo_test.go
python3 - "$ID" "$PROP" "$OUT" "$PKG" "$BASE" "$BUILD" "$SEED" "$TESTS" "$CHK" "$TESTPKGS" "$EXTRA" <<'PY'
import json,sys,os
ID,PROP,OUT,PKG,BASE,BUILD,SEED,TESTS,CHK,TESTPKGS,EXTRA=sys.argv[1:]
m={}
try: m=json.load(open(os.path.join(OUT,'meta.json')))
except Exception as e: m={"note":"no meta.json from the author: %s"%e}
viol=[l.strip() for l in open('/tmp/sv_%s.check.txt'%ID, errors='replace') if l.startswith('VIOLATION') or l.startswith('  harness=') or l.startswith('INCONCLUSIVE')][:6]
json.dump({"seed":ID,"property":PROP,"author_meta":m,"demo_package_dir":PKG,
 "confirmed":{"demo_passes_on_unchanged":BASE=="0","builds_with_change":BUILD=="0","demo_fails_with_change":SEED!="0","existing_tests_pass_with_change":TESTS=="0","test_packages":TESTPKGS},
 "what_we_ran":["scratch worktree: demo on unchanged tree, git apply patch.diff, go build ./..., demo, go test "+TESTPKGS,"scratch worktree of /repo HEAD + git apply patch.diff; VERIF_REPO=<that worktree> ./bin/gosmt check --property %s %s (same check, pointed at the changed tree)"%(PROP,EXTRA)],
 "check_exit":int(CHK),"detected":CHK=="1","check_output":viol},open('/verif/seeded/%s/meta.json'%ID,'w'),indent=1)
PY
