#!/usr/bin/env python3
# usage: seed_prompt.py <property-id> <worktree> : prints the prompt given to a fresh sub-agent
import json,sys
pid,wt=sys.argv[1],sys.argv[2]
p=[json.loads(l) for l in open('/verif/properties.jsonl') if json.loads(l)['id']==pid][0]
txt=json.dumps({k:p[k] for k in ('id','title','statement','quantifier','why_tests_cant','anchors') if k in p},indent=1)
print(f"""You are helping evaluate a verification effort for the open-source project enfein/mieru (a socks5/HTTP proxy with its own encrypted session protocol over TCP/UDP, written in Go). Your job is to act as a realistic source of regressions.

You have your own scratch git worktree of the repository at {wt} . Work ONLY inside that directory. Do not read or touch /verif, /repo, or any other worktree; do not look for existing verification harnesses anywhere. The sandbox is offline; for every shell call use:
  export GOFLAGS=-mod=mod GOPROXY=off GOSUMDB=off GOTOOLCHAIN=local
and run go commands from inside {wt}. NEVER use `git stash` (the stash is shared with other worktrees of this repository that other people are using); to set a change aside use `git diff > /tmp/<yourfile>.diff; git checkout -- .` and `git apply` it back later. Never run git commands that affect other worktrees (no `git worktree`, `git gc`, `git checkout <branch>`, commits or branches).

Here is a semantic property that the code base is supposed to satisfy (JSON: statement, quantifier, why existing tests cannot settle it, anchors into the code):

{txt}

TASK. Produce TWO independent changes (call them 1 and 2) to the NON-TEST Go source of the repository, each of which
  (a) breaks the property stated above (a user relying on the statement would be let down),
  (b) still compiles (`go build ./...`) and still passes the EXISTING, unedited test suite of the packages it touches and of their direct dependants (at least run `go test -vet=off -count=1` on those packages; run `go test -vet=off -count=1 ./pkg/... ./apis/...` if you can afford the ~5-10 minutes),
  (c) looks like something a maintainer could plausibly commit by mistake (a refactor, an "optimisation", an off-by-one, a reordered check, a symmetric change to encoder and decoder, a wrong constant, a dropped re-check, ...), not sabotage with an obvious marker,
  (d) needs something SPECIFIC to manifest - a particular boundary value or unusual input, a particular interleaving, a fault (loss/duplication/reordering) at a particular point, a multi-step sequence of operations, a particular configuration combination, or two cooperating sites that each look fine alone - so that ordinary use and the existing tests do not expose it at once.
The two changes should touch DIFFERENT mechanisms or sites of the property (e.g. not two off-by-ones in the same function), and each must be a small diff (ideally < 30 changed lines) to existing files; do not add build tags, and do not edit or add *_test.go files as part of the change.

For each change also write a DEMONSTRATION: one Go test file (package-internal `package xxx` test, or external, your choice) that PASSES on the unchanged code and FAILS with the change applied. It must be self-contained, deterministic (no dependence on luck; bounded run time < 60 s), and must not need the network beyond loopback.

DELIVERABLES, for N in 1, 2, under {wt}/_out/N/ :
  patch.diff     - `git diff` of the source change only (must apply with `git apply` to a clean checkout of HEAD)
  demo_test.go   - the demonstration test file; its first line must be a comment `// place in: <package dir relative to repo root>`
  meta.json      - {{"property": "{pid}", "summary": "<what was changed and why it breaks the property>", "needs": "<what specific input/schedule/sequence/config it needs to manifest>", "files": [...], "demo_package_dir": "<dir>", "test_packages": "<space separated ./pkg/... patterns whose existing tests you ran with the change>", "commands_run": [...]}}
Before finishing, VERIFY each yourself: on clean HEAD the demo passes; with the patch applied the build passes, the existing tests of the listed packages pass, and the demo fails. Leave the worktree clean (git checkout -- . ; remove copied demo files) except for the _out directory. If after serious effort you can only produce one change, deliver that one and say so.

Reply with a short summary of the two changes (what, where, what is needed to trigger) - nothing else is needed.""")
