#!/usr/bin/env python3
# Regenerates /verif/MANIFEST.json from the engine's registry (bin/gosmt list)
# and the per-property texts below.
import json, subprocess, os
ROOT=os.path.dirname(os.path.dirname(os.path.abspath(__file__)))
props=[json.loads(l) for l in open(os.path.join(ROOT,'properties.jsonl'))]
listed=subprocess.check_output([os.path.join(ROOT,'bin/gosmt'),'list']).decode().splitlines()
claimed=sorted({l.split()[0] for l in listed})
TEXT=json.load(open(os.path.join(ROOT,'tools/manifest_text.json')))
checks=[]
for pid in claimed:
    t=TEXT.get(pid,{})
    checks.append({
      "property_id":pid,
      "quick_cmd":"./bin/gosmt check --property %s --tier quick"%pid,
      "thorough_cmd":"./bin/gosmt check --property %s --tier thorough"%pid,
      "evidence_file":"/verif/evidence/%s.json"%pid,
      "replay_cmd_template":"./bin/gosmt replay {path}",
      "engine":"gosmt",
      "technique":"bounded symbolic execution of the real Go SSA (loops unrolled with unwinding assertions, joins merged with ite) + SMT (z3 5.1 / cvc5 bv-as-int); counterexamples replayed natively",
      "level_claimed":{"category":"model_checking","text":t.get("level","Every obligation (vAssert, every reachable Go panic site, every unwinding assertion) of the listed harnesses is decided by the solver for all values of the symbolic inputs within the stated bounds; nothing is claimed outside them."),"design_ref":"DESIGN.md section 10.3 (as built), section 6 "+pid+" (plan)"},
      "level_note":t.get("note","Trusted: the gosmt encoder (every counterexample is replayed natively before it is reported; 50 of 59 independently seeded changes are reported as reproduced violations, DESIGN.md 10.6), z3/cvc5, the engine-level library models and the harness stubs listed per run in the evidence under 'stubs' and 'assumptions'. Bounds and what lies outside them are repeated per harness in the evidence.")
    })
na=[{"property_id":p['id'],"reason":TEXT.get(p['id'],{}).get("na","check not built yet (work in progress)")} for p in props if p['id'] not in claimed]
m={"version":1,"setup_cmd":"./setup.sh",
 "hooks":{"guard":"verif","enable":"none: harnesses live in /verif/harness and are injected into the package under test through go/packages and `go test -overlay` overlays; nothing is compiled into /repo","baseline_off_cmd":"cd /repo && go test -vet=off -count=1 -timeout 25m ./...","source_commits":[],"add_only":True},
 "engines":[{"name":"gosmt","path":"engine","serves_properties":claimed,"kind_free_text":"Go SSA (golang.org/x/tools v0.29.0) -> SMT-LIB2 symbolic executor with guarded merging and bounded unrolling; Plan-9 asm front end for bit_amd64.s; z3 5.1.0 / cvc5 1.0 back ends"}],
 "checks":checks,
 "notes":"All checks are bounded: see each evidence file for functions encoded, bounds, stubs, queries and solver time. Exit 2 (no VIOLATION line) means inconclusive (timeout / unsupported construct / harness no longer compiles).",
 "not_applicable":na}
json.dump(m,open(os.path.join(ROOT,'MANIFEST.json'),'w'),indent=1)
print("claimed:",claimed)
