#!/bin/bash
# usage: tools/seed_check.sh <seed-id> [check extra args]
# Runs the property's registered check against a scratch worktree of /repo HEAD
# with the seeded change applied (VERIF_REPO points the same check at that
# tree; /repo itself is never touched) and records the outcome in meta.json.
set -u
ID=$1; EXTRA=${2:-}
PROP=$(python3 -c "import json;print(json.load(open('/verif/seeded/$ID/meta.json'))['property'])")
W2=/tmp/svc_$ID
rm -rf $W2; git -C /repo worktree prune; git -C /repo worktree add -q --detach $W2 HEAD || exit 3
( cd $W2 && git apply /verif/seeded/$ID/patch.diff ) || { echo "patch does not apply"; git -C /repo worktree remove --force $W2; exit 3; }
S=$(date +%s)
( cd /verif && VERIF_REPO=$W2 timeout ${CT:-3000} ./bin/gosmt check --property $PROP --noevidence $EXTRA > /tmp/sv_$ID.check.txt 2>&1 ); CHK=$?
T=$(( $(date +%s)-S ))
git -C /repo worktree remove --force $W2
echo "$ID check exit=$CHK t=${T}s"; grep -a -E "^VIOLATION|^  harness=|^INCONCLUSIVE|^property=" /tmp/sv_$ID.check.txt | cut -c1-300 | head -8
# keep replay vectors of seeded runs out of /verif/replays
python3 - "$ID" "$PROP" "$CHK" "$EXTRA" "$T" <<'PY'
import json,sys,re,os,shutil
ID,PROP,CHK,EXTRA,T=sys.argv[1:]
p='/verif/seeded/%s/meta.json'%ID
m=json.load(open(p))
lines=[l.rstrip() for l in open('/tmp/sv_%s.check.txt'%ID, errors='replace') if l.startswith('VIOLATION') or l.startswith('  harness=') or l.startswith('INCONCLUSIVE')][:6]
for l in lines:
    mm=re.search(r'(/verif/replays/[^\s;)]+\.json)',l)
    if mm and os.path.exists(mm.group(1)):
        shutil.move(mm.group(1), '/verif/seeded/%s/%s'%(ID,os.path.basename(mm.group(1))))
m["check_cmd"]="VERIF_REPO=<scratch worktree with patch.diff applied> ./bin/gosmt check --property %s %s"%(PROP,EXTRA)
m["check_exit"]=int(CHK); m["detected"]=CHK=="1"; m["check_wall_s"]=int(T)
m["check_output"]=[re.sub(r'/verif/replays/','seeded/%s/'%ID,l)[:400] for l in lines]
json.dump(m,open(p,'w'),indent=1)
PY
