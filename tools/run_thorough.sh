#!/bin/bash
# runs every registered thorough check in sequence (no evidence rewrite), prints exit code and time per property
cd "$(dirname "$0")/.."
[ -x bin/gosmt ] || ./setup.sh
for p in ${PROPS:-$(./bin/gosmt list | awk '{print $1}' | sort -u)}; do
  s=$(date +%s)
  GOSMT_TIMES=1 timeout ${QT:-7200} ./bin/gosmt check --property $p --tier thorough --noevidence > thorough_$p.txt 2>&1; e=$?
  echo "$p exit=$e t=$(( $(date +%s)-s ))s"; grep -a -E '^\s+\[time\]|^INCONCLUSIVE|^VIOLATION' thorough_$p.txt | cut -c1-200 | head -40
done
