#!/bin/bash
# runs every registered quick check in sequence (no evidence rewrite), prints exit code and time
cd /verif
for p in $(./bin/gosmt list | awk '{print $1}' | sort -u); do
  s=$(date +%s)
  GOSMT_TIMES=1 timeout ${QT:-1800} ./bin/gosmt check --property $p --tier ${TIER:-quick} > /tmp/q_$p.txt 2>&1; e=$?
  echo "$p exit=$e t=$(( $(date +%s)-s ))s $(grep -a -c -E '^VIOLATION' /tmp/q_$p.txt) viol; $(grep -a -E '^(INCONCLUSIVE|KNOWN-FINDING)' /tmp/q_$p.txt | head -2 | cut -c1-160)"
done
