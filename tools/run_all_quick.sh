#!/bin/bash
# runs every registered quick check in sequence, prints exit code and time
cd /verif
for p in $(python3 -c "import json;print(' '.join(c['property_id'] for c in json.load(open('MANIFEST.json'))['checks']))"); do
  s=$(date +%s)
  timeout ${QT:-1800} ./bin/gosmt check --property $p --tier ${TIER:-quick} > /tmp/q_$p.txt 2>&1; e=$?
  echo "$p exit=$e t=$(( $(date +%s)-s ))s $(grep -a -c -E '^VIOLATION' /tmp/q_$p.txt) viol; $(grep -a -E '^(INCONCLUSIVE|KNOWN-FINDING)' /tmp/q_$p.txt | head -2 | cut -c1-160)"
done
