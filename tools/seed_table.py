#!/usr/bin/env python3
# prints the markdown table of seeded changes for DESIGN.md from /verif/seeded/*/meta.json
import json,glob,os,re
rows=[]
for d in sorted(glob.glob('/verif/seeded/*')):
    m=json.load(open(d+'/meta.json'))
    sid=os.path.basename(d)
    what=(m.get('breaks') or (m.get('author_meta') or {}).get('summary') or '').strip().replace('\n',' ').replace('|','/')
    what=re.sub(r'\s+',' ',what)
    if len(what)>230: what=what[:227]+'...'
    files=', '.join(m.get('files') or (m.get('author_meta') or {}).get('files') or [])
    det=m.get('detected')
    by=''
    for l in m.get('check_output') or []:
        mm=re.search(r'harness=(\S+) obligation="([^"]{0,70})',l)
        if mm: by=mm.group(1)+': "'+mm.group(2)+'..."'; break
    if det is True: res='**caught** ('+by+')'+(' - '+m['note'] if m.get('note') else '')
    elif det is False: res='missed (exit %s) %s'%(m.get('check_exit'), m.get('miss_reason',''))
    else: res='not yet run'
    rows.append('| %s | %s | %s | %s |'%(sid,files,what,res))
print('| seed | file(s) | change | result of the property\'s check |\n|---|---|---|---|')
print('\n'.join(rows))
