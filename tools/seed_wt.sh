#!/bin/bash
# usage: seed_wt.sh <tag> : creates a scratch worktree /tmp/seedwt_<tag> of /repo HEAD
W=/tmp/seedwt_$1
git -C /repo worktree prune
[ -d $W ] && git -C /repo worktree remove --force $W
git -C /repo worktree add -q --detach $W HEAD && echo $W
