#!/bin/sh
# usage: tools/rh.sh <pkg> <harness> [loopbound] [timeout] [extra-json-fields]
# runs one harness and prints a compact summary
P=$1; H=$2; LB=${3:-8}; TO=${4:-120}; EX=${5:-}
S=$(mktemp /tmp/rh.XXXXXX.json)
echo "{\"Name\":\"$H\",\"Pkg\":\"$P\",\"LoopBound\":$LB,\"TimeoutS\":$TO,\"Solver\":\"${SOLVER:-z3-new}\"$EX}" > $S
/verif/bin/gosmt run-harness --spec $S --out $S.out || { echo "engine crashed"; exit 3; }
python3 - $S.out <<'PY'
import json,sys
r=json.load(open(sys.argv[1]))
print(r['name'],r['status'],r.get('error') or '','| q',r['queries'],'solver_s',round(r['solver_time_s'],1),'enc_s',round(r['encode_time_s'],2),'nodes',r['term_nodes'],'steps',r['ssa_instructions_executed'])
for o in r['obligations'] or []:
    if o['verdict']!='unsat' or o['kind'] in('assert','reach'):
        print('   ',o['kind'],'|',o['label'],'|',o.get('pos'),'|',o['verdict'],round(o['time_s'],1), o.get('model') or '')
n=sum(1 for o in r['obligations'] or [] if o['verdict']=='unsat' and o['kind']=='panic')
print('    panics discharged:',n, 'unwind:',r['unwinding'])
for n in r.get('notes') or []: print('    note:',n)
PY
rm -f $S $S.out
