#!/bin/bash
# usage: tools/seed_confirm.sh <seed-id> <property> <seed-out-dir>
# Confirms a seeded change independently in a scratch worktree of /repo HEAD:
#   demo passes on the unchanged tree, patch applies, go build ./... passes,
#   demo fails with the change, the existing tests of the listed packages pass.
# Files it under /verif/seeded/<seed-id>/ (patch.diff, demo_test.go, meta.json).
set -u
ID=$1; PROP=$2; OUT=$3
export GOFLAGS=-mod=mod GOPROXY=off GOSUMDB=off GOTOOLCHAIN=local
PKG=$(python3 -c "import json;m=json.load(open('$OUT/meta.json'));print(m.get('demo_package_dir') or m.get('demo_test_package_dir') or '')")
[ -z "$PKG" ] && PKG=$(head -1 $OUT/demo_test.go | sed -n 's,^// place in: *,,p')
PKG=${PKG#./}; PKG=${PKG%/}
TESTPKGS=$(python3 -c "import json;m=json.load(open('$OUT/meta.json'));print(m.get('test_packages') or './$PKG/')")
W=/tmp/sv_$ID
rm -rf $W; git -C /repo worktree prune; git -C /repo worktree add -q --detach $W HEAD || exit 3
cp $OUT/demo_test.go $W/$PKG/zz_seed_demo_test.go
RUNPAT=$(grep -oE "^func (Test[A-Za-z0-9_]+)" $OUT/demo_test.go | awk '{print $2}' | paste -sd'|')
( cd $W && timeout 600 go test -vet=off -count=1 -run "^($RUNPAT)\$" ./$PKG/ > /tmp/sv_$ID.base.txt 2>&1 ); BASE=$?
( cd $W && git apply $OUT/patch.diff ) || { echo "patch does not apply"; git -C /repo worktree remove --force $W; exit 3; }
( cd $W && go build ./... > /tmp/sv_$ID.build.txt 2>&1 ); BUILD=$?
( cd $W && timeout 600 go test -vet=off -count=1 -run "^($RUNPAT)\$" ./$PKG/ > /tmp/sv_$ID.seed.txt 2>&1 ); SEED=$?
rm -f $W/$PKG/zz_seed_demo_test.go
( cd $W && timeout 1500 go test -vet=off -count=1 $TESTPKGS > /tmp/sv_$ID.tests.txt 2>&1 ); TESTS=$?
git -C /repo worktree remove --force $W
echo "$ID confirm: demo-on-unchanged exit=$BASE (want 0) build-with-change=$BUILD (want 0) demo-with-change=$SEED (want !=0) existing-tests-with-change=$TESTS (want 0)"
mkdir -p /verif/seeded/$ID
cp $OUT/patch.diff /verif/seeded/$ID/patch.diff; cp $OUT/demo_test.go /verif/seeded/$ID/demo_test.go
python3 - "$ID" "$PROP" "$OUT" "$PKG" "$BASE" "$BUILD" "$SEED" "$TESTS" "$TESTPKGS" <<'PY'
import json,sys,os
ID,PROP,OUT,PKG,BASE,BUILD,SEED,TESTS,TESTPKGS=sys.argv[1:]
m=json.load(open(os.path.join(OUT,'meta.json')))
json.dump({"seed":ID,"property":PROP,"breaks":m.get("summary"),"needs_to_manifest":m.get("needs"),"files":m.get("files"),"demo_package_dir":PKG,
 "confirmed":{"demo_passes_on_unchanged":BASE=="0","builds_with_change":BUILD=="0","demo_fails_with_change":SEED!="0","existing_tests_pass_with_change":TESTS=="0","test_packages":TESTPKGS},
 "what_we_ran":["scratch worktree of /repo HEAD: demo on the unchanged tree; git apply patch.diff; go build ./...; demo again; go test -vet=off -count=1 "+TESTPKGS],
 "author_commands":m.get("commands_run")},open('/verif/seeded/%s/meta.json'%ID,'w'),indent=1)
PY
