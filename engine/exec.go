package main

import (
	"fmt"
	"go/constant"
	"go/token"
	"go/types"
	"math"
	"sort"
	"strings"

	"golang.org/x/tools/go/ssa"
)

type Obligation struct {
	Label   string
	Kind    string // assert | panic | unwind | reach
	Cond    *Term  // violation condition (sat = violated); for reach: sat = reachable
	NAssume int
	Pos     string
	Fn      string
}

type NondetVar struct {
	G    *Term // path guard under which the value was drawn
	Tag  string
	Name string
	Kind string // bool | bv | bytes
	W    int
	T    *Term
	Len  int // bytes: number of cells to read back
}

type Engine struct {
	prog *ssa.Program
	pkg  *ssa.Package
	fset *token.FileSet

	assumptions []*Term
	isFact      []bool
	obligations []*Obligation
	nondets     []*NondetVar
	nondetCount map[string]int

	globals   map[*ssa.Global]*Object
	initDone  map[*ssa.Package]bool
	errGlobal map[*ssa.Global]Value

	spec *HarnessSpec

	callLog   map[string]int
	stubLog   map[string]int
	notes     map[string]bool
	depth     int
	infoCache map[*ssa.Function]*fnInfo
	maxUnwind map[string]int
	steps     int
	inInit    []*ssa.Package
	lastNowSec, lastNowNs *Term
	folded map[string]int // vAssert labels decided by the term simplifier alone
	syncMaps map[string]*MapData
	curG        *Term // guard of the call being executed (for nondet bookkeeping)
	globalSubst map[int]*Term // x == const facts established by unconditional vAssume
	globalLits map[int]bool // literals established by unconditional vAssume
	globalLitV int
}

// HarnessSpec configures one symbolic run.
type HarnessSpec struct {
	Name        string            // harness function name inside the package
	Pkg         string            // import path of package under test
	LoopBound   int               // default unwinding bound
	LoopBounds  map[string]int    // per function (short or full name) bound
	AssumeUnwind map[string]bool  // functions whose loop exit is assumed, not asserted
	Redirects   map[string]string // full callee name -> harness stub function name
	RunInit     bool              // execute the package's synthetic init first
	IgnoreGo    bool              // `go` statements are skipped (listed as outside the claim)
	TimeoutS    int
	Solver      string
	Reach       bool // harness is a reachability witness only
	KnownOpen   []string // ids of known findings listed as open (vKnown)
	Par          int  // solver processes for this harness
	IgnoreBlocked bool // a path that blocks forever is not a violation in this harness (assumed away, noted)
	NoCOI        bool // keep every assumption in every query (no cone-of-influence reduction)
	NoLightPass  bool // skip the first attempt without facts
	NoTactic     bool // z3: plain (check-sat) instead of (check-sat-using qfaufbv)
	GroupAsserts bool // decide all asserts with one query (cheap harnesses)
	TimeUnit string // "" = seconds+nanoseconds pair; "ns" / "ms" = single value in that unit
	ClockMin, ClockMax int64 // range of time.Now in Unix seconds (default 2020..2100)
	NonMonotonicClock bool // time.Now may go backwards between calls
	BMI2        string   // "", "generic": cpu.X86.HasBMI2=false; "asm": true; "either": symbolic
	MaxStrEq    int
	ExtraPkgs   []string // further package dirs (relative to the repo root) whose /verif/harness files are overlaid too (exported helpers for the harness)
}

func NewEngine(prog *ssa.Program, pkg *ssa.Package, spec *HarnessSpec) *Engine {
	return &Engine{prog: prog, pkg: pkg, fset: prog.Fset, spec: spec,
		nondetCount: map[string]int{}, globals: map[*ssa.Global]*Object{},
		initDone: map[*ssa.Package]bool{}, errGlobal: map[*ssa.Global]Value{},
		callLog: map[string]int{}, stubLog: map[string]int{}, notes: map[string]bool{},
		infoCache: map[*ssa.Function]*fnInfo{}, maxUnwind: map[string]int{}, folded: map[string]int{}}
}

func (e *Engine) note(s string) { e.notes[s] = true }

func (e *Engine) assume(c *Term) {
	if c.IsTrue() {
		return
	}
	e.assumptions = append(e.assumptions, c)
	e.isFact = append(e.isFact, false)
}

// assumeFact records "the obligation just emitted holds" for what follows.
// Facts are consequences of the real assumptions once their obligation is
// discharged, so a query may leave them out (first, cheaper attempt).
func (e *Engine) assumeFact(c *Term) {
	if c.IsTrue() {
		return
	}
	e.assumptions = append(e.assumptions, c)
	e.isFact = append(e.isFact, true)
}

func (e *Engine) oblige(kind, label string, cond *Term, pos token.Pos, fn string) {
	if cond.IsFalse() && kind != "reach" {
		if kind == "assert" {
			e.folded[label]++
		}
		return
	}
	p := ""
	if pos.IsValid() {
		pp := e.fset.Position(pos)
		p = fmt.Sprintf("%s:%d", shortPath(pp.Filename), pp.Line)
	}
	e.obligations = append(e.obligations, &Obligation{Label: label, Kind: kind, Cond: cond, NAssume: len(e.assumptions), Pos: p, Fn: fn})
}

func shortPath(s string) string {
	if strings.HasPrefix(s, repoRoot+"/") {
		return s[len(repoRoot)+1:]
	}
	if i := strings.LastIndex(s, "/go/src/"); i >= 0 {
		return "go/" + s[i+8:]
	}
	if i := strings.LastIndex(s, "/pkg/mod/"); i >= 0 {
		return s[i+9:]
	}
	return s
}

// panicIf records a panic obligation and then assumes the panic did not happen.
func (e *Engine) panicIf(fr *frame, g, cond *Term, what string, pos token.Pos) {
	if fr != nil && !cond.IsFalse() {
		cond = fr.ctx(cond, g)
	}
	c := And(g, cond)
	if c.IsFalse() {
		return
	}
	if !pos.IsValid() && fr != nil {
		pos = fr.curPos
	}
	fn := ""
	if fr != nil {
		fn = fr.fn.String()
	}
	e.oblige("panic", what, c, pos, fn)
	e.assumeFact(Not(c))
}

// ---- function analysis ----

type loopInfo struct {
	header *ssa.BasicBlock
	body   map[*ssa.BasicBlock]bool
	parent *loopInfo
	order  []*ssa.BasicBlock
}

type fnInfo struct {
	rpo     []*ssa.BasicBlock
	loops   map[*ssa.BasicBlock]*loopInfo
	inner   map[*ssa.BasicBlock]*loopInfo
	escapes map[ssa.Value]bool
}

func (e *Engine) info(fn *ssa.Function) *fnInfo {
	if fi, ok := e.infoCache[fn]; ok {
		return fi
	}
	fi := &fnInfo{loops: map[*ssa.BasicBlock]*loopInfo{}, inner: map[*ssa.BasicBlock]*loopInfo{}, escapes: map[ssa.Value]bool{}}
	// reverse post-order
	seen := map[*ssa.BasicBlock]bool{}
	var post []*ssa.BasicBlock
	var dfs func(b *ssa.BasicBlock)
	dfs = func(b *ssa.BasicBlock) {
		seen[b] = true
		for _, s := range b.Succs {
			if !seen[s] {
				dfs(s)
			}
		}
		post = append(post, b)
	}
	if len(fn.Blocks) > 0 {
		dfs(fn.Blocks[0])
	}
	if fn.Recover != nil && !seen[fn.Recover] {
		// recover block unreachable in normal flow; ignored
	}
	for i := len(post) - 1; i >= 0; i-- {
		fi.rpo = append(fi.rpo, post[i])
	}
	pos := map[*ssa.BasicBlock]int{}
	for i, b := range fi.rpo {
		pos[b] = i
	}
	// back edges and natural loops
	for _, b := range fi.rpo {
		for _, s := range b.Succs {
			if pos[s] <= pos[b] {
				if !s.Dominates(b) {
					panic(unsupported("irreducible control flow in " + fn.String()))
				}
				L := fi.loops[s]
				if L == nil {
					L = &loopInfo{header: s, body: map[*ssa.BasicBlock]bool{s: true}}
					fi.loops[s] = L
				}
				// add natural loop of edge b->s
				st := []*ssa.BasicBlock{b}
				for len(st) > 0 {
					x := st[len(st)-1]
					st = st[:len(st)-1]
					if L.body[x] {
						continue
					}
					L.body[x] = true
					for _, p := range x.Preds {
						if seen[p] {
							st = append(st, p)
						}
					}
				}
			}
		}
	}
	var all []*loopInfo
	for _, L := range fi.loops {
		all = append(all, L)
		for _, b := range fi.rpo {
			if L.body[b] {
				L.order = append(L.order, b)
			}
		}
	}
	sort.Slice(all, func(i, j int) bool { return len(all[i].body) < len(all[j].body) })
	for _, b := range fi.rpo {
		for _, L := range all {
			if L.body[b] {
				fi.inner[b] = L
				break
			}
		}
	}
	for i, L := range all {
		for _, M := range all[i+1:] {
			if M != L && M.body[L.header] && len(M.body) > len(L.body) {
				L.parent = M
				break
			}
		}
	}
	// escaping values: defined in a loop, used by a non-phi outside the
	// innermost loop of the definition
	for _, b := range fi.rpo {
		L := fi.inner[b]
		if L == nil {
			continue
		}
		for _, in := range b.Instrs {
			v, ok := in.(ssa.Value)
			if !ok {
				continue
			}
			refs := v.Referrers()
			if refs == nil {
				continue
			}
			for _, r := range *refs {
				if _, isPhi := r.(*ssa.Phi); isPhi {
					continue
				}
				if rb := r.Block(); rb != nil && !L.body[rb] {
					fi.escapes[v] = true
				}
			}
		}
	}
	e.infoCache[fn] = fi
	return fi
}

// ---- frames ----

type deferred struct {
	g    *Term
	call *ssa.CallCommon
	args []Value
	fnv  Value
	pos  token.Pos
}

type frame struct {
	e      *Engine
	fn     *ssa.Function
	info   *fnInfo
	regs   map[ssa.Value]Value
	cur    map[ssa.Value]Value // loop-escaping values: the unmerged value of the current iteration (for uses inside the loop)
	curB   *ssa.BasicBlock
	inG    map[*ssa.BasicBlock]*Term
	phiAcc map[*ssa.Phi]Value
	retG   *Term
	retV   Value
	defers []deferred
	curPos token.Pos
	caller *frame
	entryG *Term
	litG   *Term
	litM   map[int]bool
	litV   int
	litS   map[int]*Term
}

func (e *Engine) bound(fn *ssa.Function) int {
	if e.spec.LoopBounds != nil {
		if b, ok := e.spec.LoopBounds[fn.String()]; ok {
			return b
		}
		if b, ok := e.spec.LoopBounds[fn.Name()]; ok {
			return b
		}
	}
	if e.spec.LoopBound > 0 {
		return e.spec.LoopBound
	}
	return 8
}

// callFn symbolically inlines fn.
func (e *Engine) callFn(caller *frame, fn *ssa.Function, args []Value, binds []Value, g *Term) Value {
	if g.IsFalse() {
		return zeroResults(fn.Signature)
	}
	if len(fn.Blocks) == 0 {
		panic(unsupported("call of function without body: " + fn.String()))
	}
	e.depth++
	defer func() { e.depth-- }()
	if e.depth > 80 {
		panic(unsupported("call depth exceeded at " + fn.String()))
	}
	e.callLog[fn.String()]++
	fr := &frame{e: e, fn: fn, info: e.info(fn), regs: map[ssa.Value]Value{}, cur: map[ssa.Value]Value{}, inG: map[*ssa.BasicBlock]*Term{},
		phiAcc: map[*ssa.Phi]Value{}, retG: tFalse, caller: caller, entryG: g}
	for i, p := range fn.Params {
		if i < len(args) {
			fr.regs[p] = args[i]
		} else {
			panic(unsupported(fmt.Sprintf("missing argument %d for %s", i, fn)))
		}
	}
	for i, fv := range fn.FreeVars {
		fr.regs[fv] = binds[i]
	}
	fr.inG[fn.Blocks[0]] = g
	fr.runRegion(fr.info.rpo, nil)
	return fr.retV
}

func zeroResults(sig *types.Signature) Value {
	r := sig.Results()
	switch r.Len() {
	case 0:
		return nil
	case 1:
		return zeroValue(r.At(0).Type())
	}
	return zeroValue(r)
}

func (fr *frame) runRegion(blocks []*ssa.BasicBlock, cur *loopInfo) {
	for _, b := range blocks {
		in := fr.info.inner[b]
		if in == cur {
			fr.execBlock(b)
			continue
		}
		if L := fr.info.loops[b]; L != nil && L.parent == cur {
			fr.runLoop(L)
		}
	}
}

func (fr *frame) guardOf(b *ssa.BasicBlock) *Term {
	if g, ok := fr.inG[b]; ok {
		return g
	}
	return tFalse
}

func (fr *frame) runLoop(L *loopInfo) {
	e := fr.e
	bound := e.bound(fr.fn)
	for iter := 0; ; iter++ {
		g := fr.guardOf(L.header)
		if g.IsFalse() {
			if iter > e.maxUnwind[fr.fn.String()] {
				e.maxUnwind[fr.fn.String()] = iter
			}
			return
		}
		if iter > bound {
			// bound+1 full passes were executed (so that every evaluation of the
			// loop condition after `bound` iterations is covered); whatever
			// still wants to re-enter the header is the unwinding condition
			name := fr.fn.String()
			cond := g
			fr.inG[L.header] = tFalse
			for _, in := range L.header.Instrs {
				if phi, ok := in.(*ssa.Phi); ok {
					delete(fr.phiAcc, phi)
				}
			}
			if e.spec.AssumeUnwind[fr.fn.Name()] || e.spec.AssumeUnwind[name] || e.spec.AssumeUnwind["*"] {
				e.note(fmt.Sprintf("loop in %s: exit after %d iterations ASSUMED (outside the claim beyond)", name, bound))
				e.assume(Not(cond))
			} else {
				e.oblige("unwind", fmt.Sprintf("unwinding assertion: loop in %s needs more than %d iterations", fr.fn.Name(), bound), cond, L.header.Instrs[0].Pos(), name)
				e.assumeFact(Not(cond))
			}
			e.maxUnwind[name] = bound
			return
		}
		fr.runRegion(L.order, L)
	}
}

func (fr *frame) lits(g *Term) map[int]bool {
	e := fr.e
	if g == fr.litG && fr.litV == e.globalLitV {
		return fr.litM
	}
	ls := guardLitSet(g)
	m := ls.truth
	for k, v := range e.globalLits {
		if _, ok := m[k]; !ok {
			m[k] = v
		}
	}
	for k, v := range e.globalSubst {
		if _, ok := ls.subst[k]; !ok {
			ls.subst[k] = v
		}
	}
	fr.litG, fr.litM, fr.litV, fr.litS = g, m, e.globalLitV, ls.subst
	return fr.litM
}

// ctx simplifies a scalar under the literals of the current path guard.
func (fr *frame) ctx(t *Term, g *Term) *Term {
	if t.op == OConst || t.op == OVar || (g.IsTrue() && len(fr.e.globalLits) == 0) {
		return t
	}
	l := fr.lits(g)
	return simplifyUnderS(t, l, fr.litS, 400)
}

func (fr *frame) setReg(v ssa.Value, val Value, g *Term) {
	if t, ok := val.(*Term); ok {
		val = fr.ctx(t, g)
	}
	if fr.info.escapes[v] {
		fr.cur[v] = val
		if old, ok := fr.regs[v]; ok && old != nil {
			fr.regs[v] = merge(g, val, old)
			return
		}
	}
	fr.regs[v] = val
}

func (fr *frame) addEdge(from *ssa.BasicBlock, succIdx int, eg *Term) {
	if eg.IsFalse() {
		return
	}
	to := from.Succs[succIdx]
	// which occurrence of `from` in to.Preds
	occ := 0
	for i := 0; i < succIdx; i++ {
		if from.Succs[i] == to {
			occ++
		}
	}
	pi := -1
	for i, p := range to.Preds {
		if p == from {
			if occ == 0 {
				pi = i
				break
			}
			occ--
		}
	}
	if pi < 0 {
		panic("addEdge: predecessor not found")
	}
	old := fr.guardOf(to)
	for _, in := range to.Instrs {
		phi, ok := in.(*ssa.Phi)
		if !ok {
			break
		}
		nv := fr.val(phi.Edges[pi])
		if old.IsFalse() {
			fr.phiAcc[phi] = nv
		} else {
			fr.phiAcc[phi] = merge(eg, nv, fr.phiAcc[phi])
		}
	}
	fr.inG[to] = Or(old, eg)
}

func (fr *frame) execBlock(b *ssa.BasicBlock) {
	g := fr.guardOf(b)
	fr.inG[b] = tFalse
	if g.IsFalse() {
		return
	}
	fr.curB = b
	e := fr.e
	for _, in := range b.Instrs {
		e.steps++
		if e.steps > 3000000 {
			panic(unsupported("symbolic execution exceeded 3,000,000 SSA steps (loop bounds too large for this tree)"))
		}
		if p := in.Pos(); p.IsValid() {
			fr.curPos = p
		}
		switch x := in.(type) {
		case *ssa.Phi:
			fr.setReg(x, fr.phiAcc[x], g)
			delete(fr.phiAcc, x)
		case *ssa.Jump:
			fr.addEdge(b, 0, g)
		case *ssa.If:
			c := fr.ctx(fr.val(x.Cond).(*Term), g)
			fr.addEdge(b, 0, And(g, c))
			fr.addEdge(b, 1, And(g, Not(c)))
		case *ssa.Return:
			var rv Value
			switch len(x.Results) {
			case 0:
			case 1:
				rv = fr.val(x.Results[0])
			default:
				t := &StructV{F: make([]Value, len(x.Results))}
				for i, r := range x.Results {
					t.F[i] = fr.val(r)
				}
				rv = t
			}
			if fr.retG.IsFalse() {
				fr.retV = rv
			} else if rv != nil {
				fr.retV = merge(g, rv, fr.retV)
			}
			fr.retG = Or(fr.retG, g)
		case *ssa.Panic:
			e.oblige("panic", "explicit panic: "+describe(x.X), g, x.Pos(), fr.fn.String())
			e.assumeFact(Not(g))
		case *ssa.RunDefers:
			for i := len(fr.defers) - 1; i >= 0; i-- {
				d := fr.defers[i]
				dg := And(g, d.g)
				if dg.IsFalse() {
					continue
				}
				e.doCall(fr, d.call, d.fnv, d.args, dg, d.pos)
			}
		case *ssa.Defer:
			fnv, args := e.evalCallOperands(fr, &x.Call)
			fr.defers = append(fr.defers, deferred{g: g, call: &x.Call, args: args, fnv: fnv, pos: x.Pos()})
		case *ssa.Go:
			if e.spec.IgnoreGo {
				e.note("go statement skipped (goroutine body outside the claim): " + describeCall(&x.Call))
			} else {
				panic(unsupported("go statement in " + fr.fn.String()))
			}
		default:
			e.execInstr(fr, in, g)
		}
	}
}

func describe(v ssa.Value) string {
	if mi, ok := v.(*ssa.MakeInterface); ok {
		if c, ok := mi.X.(*ssa.Const); ok {
			return c.Value.String()
		}
		return mi.X.Type().String()
	}
	return v.Type().String()
}

func describeCall(c *ssa.CallCommon) string {
	if f := c.StaticCallee(); f != nil {
		return f.String()
	}
	return c.Value.String()
}

// ---- operand evaluation ----

func (fr *frame) val(v ssa.Value) Value {
	switch x := v.(type) {
	case *ssa.Const:
		return fr.e.constVal(x)
	case *ssa.Global:
		return ptrTo(fr.e.globalObj(x))
	case *ssa.Function:
		return &FuncV{A: []FuncAlt{{G: tTrue, Fn: x}}}
	case *ssa.Builtin:
		return &FuncV{A: []FuncAlt{{G: tTrue, Builtin: x.Name()}}}
	}
	// a loop-escaping value used INSIDE its loop: by SSA dominance the use is
	// preceded by this iteration's definition, so the unmerged value applies
	// (the merge over iterations is only for uses after the loop)
	if c, ok := fr.cur[v]; ok && fr.curB != nil {
		if in, isI := v.(ssa.Instruction); isI {
			if L := fr.info.inner[in.Block()]; L != nil && L.body[fr.curB] {
				return c
			}
		}
	}
	r, ok := fr.regs[v]
	if !ok {
		panic(unsupported(fmt.Sprintf("use of undefined register %s (%T) in %s", v.Name(), v, fr.fn)))
	}
	return r
}

func (e *Engine) constVal(c *ssa.Const) Value {
	t := c.Type()
	if c.Value == nil {
		return zeroValue(t)
	}
	switch u := t.Underlying().(type) {
	case *types.Basic:
		switch {
		case u.Info()&types.IsBoolean != 0:
			return Bool(constant.BoolVal(c.Value))
		case u.Info()&types.IsString != 0:
			return strConst(constant.StringVal(c.Value))
		case u.Info()&types.IsFloat != 0:
			f, _ := constant.Float64Val(c.Value)
			if u.Kind() == types.Float32 {
				return Const(32, uint64(math.Float32bits(float32(f))))
			}
			return Const(64, math.Float64bits(f))
		case u.Info()&types.IsInteger != 0:
			w, _, _ := intWidth(t)
			if i, ok := constant.Int64Val(c.Value); ok {
				return Const(w, uint64(i))
			}
			if ui, ok := constant.Uint64Val(c.Value); ok {
				return Const(w, ui)
			}
		}
	case *types.TypeParam:
	}
	panic(unsupported("constant " + c.String()))
}

func (e *Engine) globalObj(g *ssa.Global) *Object {
	if o, ok := e.globals[g]; ok {
		return o
	}
	et := g.Type().(*types.Pointer).Elem()
	// Run the owning package's init lazily for packages of this module.
	if g.Pkg != nil && !e.initDone[g.Pkg] && e.shouldInit(g.Pkg) {
		e.runInit(g.Pkg)
		if o, ok := e.globals[g]; ok {
			return o
		}
	}
	var v Value
	if g.Pkg != nil && !e.initDone[g.Pkg] {
		// global of a package whose init is not executed
		if types.Identical(et, errorType) {
			v = e.opaqueError("global:"+g.String(), nil)
		} else if isHavocSafeZero(g) {
			v = zeroValue(et)
		} else {
			v = e.foreignGlobal(g, et)
		}
	} else {
		v = zeroValue(et)
	}
	o := newObject("global:"+g.Name(), et, v)
	e.globals[g] = o
	return o
}

var errorType = types.Universe.Lookup("error").Type()

func isHavocSafeZero(g *ssa.Global) bool {
	switch g.String() {
	case "encoding/binary.BigEndian", "encoding/binary.LittleEndian":
		return true
	}
	return false
}

func (e *Engine) foreignGlobal(g *ssa.Global, et types.Type) Value {
	if h, ok := foreignGlobals[g.String()]; ok {
		return h(e, et)
	}
	panic(unsupported("read of global from package whose init is not modelled: " + g.String()))
}

func (e *Engine) shouldInit(p *ssa.Package) bool {
	path := p.Pkg.Path()
	if strings.HasPrefix(path, "github.com/enfein/mieru/") {
		if strings.Contains(path, "/log") {
			return false
		}
		return true // generated *pb packages: only their variable initialisers run (see invokeFn)
	}
	return false
}

func (e *Engine) runInit(p *ssa.Package) {
	e.initDone[p] = true
	initFn := p.Func("init")
	if initFn == nil || len(initFn.Blocks) == 0 {
		return
	}
	// make sure every global of the package exists with its zero value first
	for _, m := range p.Members {
		if g, ok := m.(*ssa.Global); ok {
			if _, ok := e.globals[g]; !ok {
				et := g.Type().(*types.Pointer).Elem()
				e.globals[g] = newObject("global:"+g.Name(), et, zeroValue(et))
			}
		}
	}
	saved := e.depth
	e.inInit = append(e.inInit, p)
	e.callFn(nil, initFn, nil, nil, tTrue)
	e.inInit = e.inInit[:len(e.inInit)-1]
	e.depth = saved
}
