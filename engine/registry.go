package main

var registry = map[string][]HarnessDef{}

func reg(prop string, defs ...HarnessDef) { registry[prop] = append(registry[prop], defs...) }

func init() {
	reg("C17",
		HarnessDef{ID: "H17.1a", Spec: HarnessSpec{Name: "vH_C17_pdepGeneric_rec", Pkg: "pkg/mathext", LoopBound: 64, TimeoutS: 240},
			What:   "pdepGeneric satisfies the PDEP recursion on the lowest mask bit for all 2^128 (x,mask); its loop needs <= 64 iterations",
			Bounds: "full 64-bit width, unwind 64 (unwinding assertion proved)", Outside: "equality with the SDM definition follows by a paper induction on popcount(mask)"},
	)
}
