package main

var registry = map[string][]HarnessDef{}

func reg(prop string, defs ...HarnessDef) { registry[prop] = append(registry[prop], defs...) }

func thor(d HarnessDef) HarnessDef { d.Tier = "thorough"; return d }
func off(d HarnessDef) HarnessDef  { d.Tier = "off"; return d }

func init() {
	reg("C08",
		HarnessDef{ID: "H8.2a", Spec: HarnessSpec{Name: "vH_C08_ts_session", Pkg: "pkg/protocol", LoopBound: 8, TimeoutS: 120}, ReplayFn: "vR_C08_ts_session",
			What:   "sessionStruct.Unmarshal: accepted => |receiver minute - timestamp| <= 1; within one minute and well-formed => accepted; for every 32-byte metadata and every clock reading",
			Bounds: "clock 2020..2100 at nanosecond resolution, all 2^256 metadata byte strings", Outside: "clock steps backwards during the call"},
		HarnessDef{ID: "H8.2b", Spec: HarnessSpec{Name: "vH_C08_ts_dataack", Pkg: "pkg/protocol", LoopBound: 8, TimeoutS: 120}, ReplayFn: "vR_C08_ts_dataack",
			What:   "dataAckStruct.Unmarshal: same timestamp window for data/ack metadata (non low-entropy types for the accept direction)",
			Bounds: "clock 2020..2100, all metadata byte strings", Outside: "clock steps backwards during the call"},
		HarnessDef{ID: "H8.1a", Spec: HarnessSpec{Name: "vH_C08_slots", Pkg: "pkg/cipher", LoopBound: 8, TimeoutS: 120, Solver: "cvc5-int"},
			What:   "saltFromTime/cipherKeyEpoch slot arithmetic: |skew|<=60 s => sender slot among the receiver's three; |skew|>=240 s => not; slots are consecutive multiples of 120 s nearest to the instant",
			Bounds: "all instants 1970+10min..2^35 s at ns resolution, skew |d| <= 1000 s", Outside: "instants beyond year 3058"},
		HarnessDef{ID: "H8.1b", Spec: HarnessSpec{Name: "vH_C08_key_is_function_of_slot", Pkg: "pkg/cipher", LoopBound: 40, TimeoutS: 120},
			What:   "newBlockCipherList: key i == PBKDF2(pw, SHA256(BE64(slot_i(t))), 64, 32) for every password and instant (so equal slots give equal keys: with H8.1a, key agreement within 60 s of skew)",
			Bounds: "32-byte password, all instants; SHA-256/PBKDF2 uninterpreted (decided by term identity plus solver on any difference)", Outside: "hash collisions"},
	)
	c07R := map[string]string{
		"github.com/enfein/mieru/v3/pkg/cipher.CheckUserFromHint":                            "vStubHint",
		"(*github.com/enfein/mieru/v3/pkg/cipher.StatelessDecryptor).TryDecrypt":             "vStubTryDecrypt",
		"(*github.com/enfein/mieru/v3/pkg/protocol/serveruser.sourceUserCache).lookup":       "vStubLookup",
	}
	c07Note := "cryptography replaced by its outcome (ideal AEAD): per registered user the solver chooses independently whether the segment's hint names it and whether its credential opens the segment (shared credentials and hint collisions included); sync/atomic as plain cells (atomicity assumed); metrics counters no-ops"
	reg("C07",
		HarnessDef{ID: "H7.1", Spec: HarnessSpec{Name: "vH_C07_trystate", Pkg: "pkg/protocol/serveruser", LoopBound: 20, TimeoutS: 240, Par: 8, Redirects: c07R},
			What:   "real tryState/tryUser/userByID on 3 registered users x every hint/credential outcome x hint-mandatory on/off x source present/absent x an ARBITRARY source-cache lookup result (any ids incl. 0, stale, duplicate, beyond the registry; any count): the attributed user's credential authenticates; a hinted authenticating user is preferred; nothing authenticates => reject; mandatory hints enforced; an admissible user => accept; each credential tried at most once; accept/reject, hint class and - with distinct credentials - the attributed user are independent of the cache",
			Bounds: "3 users, cache lookup result of up to 3 ids (quick) / 16 ids (thorough harness H7.1f)", Outside: c07Note},
		HarnessDef{ID: "H7.1f", Tier: "off", Spec: HarnessSpec{Name: "vH_C07_trystate_full", Pkg: "pkg/protocol/serveruser", LoopBound: 20, TimeoutS: 900, Par: 8, Redirects: c07R},
			What: "same with the full 16-id cache lookup result", Bounds: "3 users, 16 cached ids each in 0..5", Outside: c07Note},
		HarnessDef{ID: "H7.3", Spec: HarnessSpec{Name: "vH_C07_reload", Pkg: "pkg/protocol/serveruser", LoopBound: 20, LoopBounds: map[string]int{"discoverUser": 2}, TimeoutS: 240, Par: 8, Redirects: c07R},
			What:   "real discoverUser with an environment step (a reload that removes user 'a' may be published and the old generation retired right after a discovery attempt): with requireCurrent the result belongs to the generation current at return, the attributed id is valid in that generation, identity/context/policy agree, the credential authenticates, the removed user is never authenticated after the reload completed; Record consumes the pending authentication",
			Bounds: "one reload during the call (loop unwound twice, unwinding assertion proved), 3 users before / 2 after", Outside: c07Note + "; true concurrency of SetUsers with the lock-free cache"},
	)
	c08R := map[string]string{
		"github.com/enfein/mieru/v3/pkg/cipher.newBlockCipherList":                       "vStubNewBlockCipherList",
		"(*github.com/enfein/mieru/v3/pkg/cipher.aeadBlockCipher).DecryptStatelessTo":    "vStubDecryptStatelessTo",
	}
	reg("C08",
		HarnessDef{ID: "H8.4a", Spec: HarnessSpec{Name: "vH_C08_key_cache_step", Pkg: "pkg/cipher", LoopBound: 8, TimeoutS: 240, Par: 6, Redirects: c08R},
			What:   "key-cache validity, one step of the real StatelessDecryptor.tryDecryptAt/getCachedCiphers/selectDecryptStateless from an ARBITRARY cache state (own entry and process-wide entry each absent or derived for any epoch at any instant) with an arbitrary, also non-monotonic, clock and every jitter draw: a segment opens iff it is keyed for one of the three slots around the receiver's clock; cached key material is never used for another slot; afterwards the decryptor's entry is the current slot's; cache invariants preserved",
			Bounds: "clock and entry times at whole seconds in 1970+20min..2^33 s, epochs any multiple of 120 s", Outside: "newBlockCipherList replaced by its contract keys = KDF(slot_i(now)) (decided by H8.1b); ideal AEAD per key; sync.Map/atomic.Pointer as plain cells; sub-second clock readings"},
		HarnessDef{ID: "H8.4b", Spec: HarnessSpec{Name: "vH_C08_get_cached_ciphers", Pkg: "pkg/cipher", LoopBound: 8, TimeoutS: 240, Par: 4, Redirects: c08R},
			What:   "getCachedCiphers from an arbitrary process-wide cache: the entry returned belongs to the current slot; a reused entry is not older than KeyRefreshInterval/4; a fresh one is stamped now and replaces the cached one",
			Bounds: "as H8.4a", Outside: "as H8.4a"},
	)
	pkW := map[string]string{
		"github.com/enfein/mieru/v3/pkg/protocol.newPadding":                  "vStubNewPaddingAnyLen",
		"github.com/enfein/mieru/v3/pkg/protocol.buildRecommendedPaddingOpts": "vStubRecommendedOpts",
		"github.com/enfein/mieru/v3/pkg/metrics.RegisterMetric":               "vStubRegisterMetric",
	}
	pkWNote := "length-level cipher (Encrypt/EncryptWithNonce only check the room they are given and write nothing); newPadding replaced by its contract (ANY length 0..maxLen); buildRecommendedPaddingOpts replaced by 'maxLen passed through'; fake PacketConn; low-entropy data types covered separately"
	reg("C14",
		HarnessDef{ID: "H14.2a", Spec: HarnessSpec{Name: "vH_C14_packet_write_session", Pkg: "pkg/protocol", LoopBound: 8, TimeoutS: 120, Par: 4, Redirects: pkW},
			What:   "real PacketUnderlay.writeOneSegment, session segments (open/close request/response, payload 0..1024 incl. the piggybacked first write, retransmissions alike): the one datagram handed to the socket is <= MTU and equals 72 + payload(+16) + suffixLen with the lengths recorded in the metadata; no uint8 truncation; buffers large enough for every encryption",
			Bounds: "MTU 1280..1500, every traffic pattern (nil / padding maxima any int32), every padding length the generator may return, client and server", Outside: pkWNote},
		HarnessDef{ID: "H14.2b", Spec: HarnessSpec{Name: "vH_C14_packet_write_dataack", Pkg: "pkg/protocol", LoopBound: 8, TimeoutS: 120, Par: 4, Redirects: pkW},
			What:   "same for data and ack segments (payload 0..maxFragmentSize(mtu), arbitrary previous prefix/suffix lengths as on a retransmission): datagram <= MTU, = 72 + prefixLen + payload(+16) + suffixLen, configured middle/end padding maxima honoured (0 = none)",
			Bounds: "as H14.2a", Outside: pkWNote},
	)
	reg("C16",
		HarnessDef{ID: "H16.2", Spec: HarnessSpec{Name: "vH_C14_packet_write_dataack", Pkg: "pkg/protocol", LoopBound: 8, TimeoutS: 120, Par: 4, Redirects: pkW},
			What: "padding maxima of the traffic pattern are what the emitted UDP data/ack datagram exhibits (= C14 H14.2b)", Bounds: "as C14 H14.2b", Outside: pkWNote},
	)
	pkP := map[string]string{"github.com/enfein/mieru/v3/pkg/metrics.RegisterMetric": "vStubRegisterMetric"}
	pkPLB := map[string]int{"vPacketParse": 25}
	pkPNote := "ideal AEAD (one genuine 2-byte payload seal in the table; Open succeeds iff nonce, length and every byte match); metadata fields arbitrary (the sender holds a valid credential); low-entropy data types covered separately"
	for _, pr := range []string{"C04", "C10", "C05"} {
		reg(pr,
			HarnessDef{ID: "H4.2a", Spec: HarnessSpec{Name: "vH_C04_packet_parse_dataack", Pkg: "pkg/protocol", LoopBound: 64, LoopBounds: pkPLB, TimeoutS: 240, Par: 8, Redirects: pkP},
				What:   "real PacketUnderlay.parseDataAckSegment on EVERY datagram body of length 0..21 with EVERY authenticated metadata (prefix/payload/suffix lengths, type, ids arbitrary), client and server: no panic; accepted => prefix + payload(+16) + suffix is exactly the body, the payload is the genuine plaintext sealed under this datagram's nonce and the ciphertext sits at the offset the metadata names; truncated, extended or shifted bodies are dropped",
				Bounds: "body 0..21 bytes (case split), genuine payload 2 bytes", Outside: pkPNote},
			HarnessDef{ID: "H4.2b", Spec: HarnessSpec{Name: "vH_C04_packet_parse_session", Pkg: "pkg/protocol", LoopBound: 64, LoopBounds: pkPLB, TimeoutS: 240, Par: 8, Redirects: pkP},
				What: "same for PacketUnderlay.parseSessionSegment (open/close request/response with piggybacked payload)", Bounds: "as H4.2a", Outside: pkPNote},
		)
	}
	lb17 := map[string]int{"pdepGeneric": 64, "pextGeneric": 64, "vRefPdep": 64, "vRefPext": 64, "vRefEncodeChunk": 64, "vH_C17_rotation": 300}
	mx := func(name, id, what string, to int) HarnessDef {
		return HarnessDef{ID: id, Spec: HarnessSpec{Name: name, Pkg: "pkg/mathext", LoopBound: 64, LoopBounds: lb17, TimeoutS: to}, What: what,
			Bounds: "all 2^128 (x, mask) pairs at full 64-bit width; loops unwound 64 times with the unwinding assertion proved", Outside: "equality of two functions satisfying the characterisation is a paper induction on popcount(mask)"}
	}
	rot := map[string]string{"github.com/enfein/mieru/v3/pkg/protocol.rotateLowEntropyMask": "vStubRotateTable"}
	rtN := func(name, id string, tier string) HarnessDef {
		return HarnessDef{ID: id, Tier: tier, Spec: HarnessSpec{Name: name, Pkg: "pkg/protocol", LoopBound: 40, LoopBounds: lb17, TimeoutS: 900, Par: 6, Redirects: rot},
			What:   "multi-chunk encode/decode (real loops): every body length 1..4C+1 (case split), symbolic contents, padding bit and rotation; each chunk equals the documented bit-by-bit encoding under that chunk's mask, decode(encode(src)) == src, the codec passes (mask, rotation, chunk index) unchanged to the rotation",
			Bounds: "N <= 4C+1 (5 chunks, last partial); per-chunk masks are 6 concrete repeated half masks of the mode's weight returned by a stub of rotateLowEntropyMask (contract decided by H17.4)", Outside: "bodies longer than 4C+1 bytes (only through the per-chunk argument); masks other than the table's in this harness (H17.3a covers every mask for one chunk)"}
	}
	rt1 := func(name, id string, tier string, to int) HarnessDef {
		return HarnessDef{ID: id, Tier: tier, Spec: HarnessSpec{Name: name, Pkg: "pkg/protocol", LoopBound: 16, LoopBounds: lb17, TimeoutS: to, Par: 4},
			What:   "single chunk, EVERY half mask of the mode's weight, real PDEP/PEXT loops: encoded chunk = documented bit-by-bit encoding; decode(encode(src)) == src; lengths 1..C",
			Bounds: "one chunk (N <= C), all 2^32 half masks of the required weight, both padding bits, every valid rotation value", Outside: "chunk index > 0 is covered through H17.4 (every later mask is again a repeated half mask of the same weight)"}
	}
	canN := func(name, id, tier string) HarnessDef {
		return HarnessDef{ID: id, Tier: tier, Spec: HarnessSpec{Name: name, Pkg: "pkg/protocol", LoopBound: 40, LoopBounds: lb17, TimeoutS: 900, Par: 6, Redirects: rot},
			What:   "canonicity, several chunks: for every body length 1..2C+1 and EVERY byte string of the matching encoded length, if the real decoder accepts it then it equals the real encoder's output for the decoded body with padding bit 0 or 1 (incl. unused mask-selected positions of a partial last chunk); inconsistent encoded/extracted lengths are rejected",
			Bounds: "N <= 2C+1 (3 chunks), concrete per-chunk mask table (stub of rotateLowEntropyMask), every rotation value, all byte strings", Outside: "longer bodies; other masks (H17.6c covers every mask for one chunk)"}
	}
	can1 := func(name, id, tier string) HarnessDef {
		return HarnessDef{ID: id, Tier: tier, Spec: HarnessSpec{Name: name, Pkg: "pkg/protocol", LoopBound: 16, LoopBounds: lb17, TimeoutS: 900, Par: 4},
			What:   "canonicity, one chunk, EVERY mask and rotation value: accepted => mask weight is the mode's, rotation valid, input = canonical encoding with padding bit 0 or 1",
			Bounds: "one chunk (N <= C), all 2^32 masks, all 2^64 chunk values", Outside: "-"}
	}
	reg("C17",
		mx("vH_C17_pdepGeneric_rec", "H17.1a", "pdepGeneric satisfies the PDEP recursion on the lowest mask bit (this defines PDEP)", 240),
		off(mx("vH_C17_pextGeneric_p1", "H17.2a", "pextGeneric: PDEP(PEXT(x,m),m) == x&m", 900)),
		mx("vH_C17_pextGeneric_p2", "H17.2b", "pextGeneric: PEXT(x,m) < 2^popcount(m)", 240),
		mx("vH_C17_pdepBMI2_rec", "H17.1b", "bit_amd64.s pdepBMI2 (parsed from the .s file, SDM semantics): same recursion", 240),
		thor(mx("vH_C17_pextBMI2_p1", "H17.2c", "bit_amd64.s pextBMI2: PDEP(PEXT(x,m),m) == x&m", 900)),
		mx("vH_C17_pextBMI2_p2", "H17.2d", "bit_amd64.s pextBMI2: PEXT(x,m) < 2^popcount(m)", 240),
		mx("vH_C17_pdep_direct32", "H17.1c", "pdepGeneric == bit-by-bit PDEP for masks < 2^32 (induction-free cross-check)", 240),
		mx("vH_C17_pext_direct32", "H17.2e", "pextGeneric == bit-by-bit PEXT for masks < 2^32", 240),
		mx("vH_C17_pdep_go_eq_asm32", "H17.1d", "pdepGeneric == pdepBMI2 for masks < 2^32", 240),
		mx("vH_C17_pext_go_eq_asm32", "H17.2f", "pextGeneric == pextBMI2 for masks < 2^32", 240),
		HarnessDef{ID: "H17.4a", Spec: HarnessSpec{Name: "vH_C17_rotation", Pkg: "pkg/protocol", LoopBound: 300, LoopBounds: lb17, TimeoutS: 240},
			What:   "lowEntropyChunkMask/rotateLowEntropyMask/isValidLowEntropyRotation: for all 256 rotation bytes x all 64 residues of the chunk index (concrete case split) x every half mask: validity = documented set; mask = initial mask rotated by i*R in R's direction; result is a repeated half mask of the same weight",
			Bounds: "chunk index 0..16383 (>= the 8191 maximum), all 2^32 half masks", Outside: "-"},
		HarnessDef{ID: "H17.4b", Spec: HarnessSpec{Name: "vH_C17_rotation_reject", Pkg: "pkg/protocol", LoopBound: 8, TimeoutS: 60},
			What: "lowEntropyChunkMask errors exactly on invalid rotation values or negative chunk index", Bounds: "all int32 rotation values, all int chunk indices", Outside: "-"},
		HarnessDef{ID: "H17.5", Spec: HarnessSpec{Name: "vH_C17_lenlaw", Pkg: "pkg/protocol", LoopBound: 8, TimeoutS: 120},
			What: "lowEntropyEncodedPayloadLen(N, mode) == ceil(N/C)*8; error exactly for invalid mode, N <= 0 or more than 8191 chunks; no uint16 overflow", Bounds: "all 2^64 N, all int32 modes", Outside: "-"},
		rtN("vH_C17_roundtripN_m32", "H17.3b-32", ""), rtN("vH_C17_roundtripN_m56", "H17.3b-56", ""),
		HarnessDef{ID: "H17.3q", Tier: "off", Spec: HarnessSpec{Name: "vH_C17_roundtripQ_m56", Pkg: "pkg/protocol", LoopBound: 40, LoopBounds: lb17, TimeoutS: 240, Par: 6, Redirects: rot},
			What:   "quick cut of the multi-chunk round trip: mode 56 (C = 7), every body length 1..9 (one full chunk, the chunk boundary, a partial second chunk), symbolic contents, padding bit and rotation: each chunk equals the documented bit-by-bit encoding under that chunk's mask, decode(encode(src)) == src",
			Bounds: "N <= 9, mode 56, per-chunk mask table via the rotation stub (contract decided by H17.4)", Outside: "other modes and longer bodies: H17.3b-* (thorough); canonicity: H17.6b/c (thorough)"},
		rtN("vH_C17_roundtripN_m40", "H17.3b-40", "thorough"), rtN("vH_C17_roundtripN_m48", "H17.3b-48", "thorough"),
		rt1("vH_C17_roundtrip1_m56", "H17.3a-56", "off", 900),
		HarnessDef{ID: "H17.6a", Spec: HarnessSpec{Name: "vH_C17_validate_metadata", Pkg: "pkg/protocol", LoopBound: 8, TimeoutS: 120},
			What: "validateLowEntropyDataAckMetadata accepts exactly the mutually consistent (type, mode, mask weight, rotation, payloadLen, extractedPayloadLen) tuples", Bounds: "all field values", Outside: "-"},
		canN("vH_C17_canonN_m32", "H17.6b-32", "thorough"), canN("vH_C17_canonN_m56", "H17.6b-56", "off"),
		canN("vH_C17_canonN_m40", "H17.6b-40", "off"), canN("vH_C17_canonN_m48", "H17.6b-48", "off"),
		can1("vH_C17_canon1_m56", "H17.6c-56", "off"), can1("vH_C17_canon1_m32", "H17.6c-32", "off"),
		rt1("vH_C17_roundtrip1_m32", "H17.3a-32", "off", 900), rt1("vH_C17_roundtrip1_m40", "H17.3a-40", "off", 900), rt1("vH_C17_roundtrip1_m48", "H17.3a-48", "off", 900),
	)
	reg("C14",
		HarnessDef{ID: "H14.1a", Spec: HarnessSpec{Name: "vH_C14_fragment_arith", Pkg: "pkg/protocol", LoopBound: 8, TimeoutS: 120},
			What:   "maxFragmentSize/maxFragmentSizeInternal/lowEntropyEncodedPayloadLen: fragment + overhead <= MTU, encoded length <= 65535, 32764 for mode 32 on TCP, <= 256 fragments per 32768-byte write",
			Bounds: "MTU 1280..1500, both transports, all int32 modes", Outside: "MTUs outside the supported range"},
		HarnessDef{ID: "H14.1b", Spec: HarnessSpec{Name: "vH_C14_padding_arith", Pkg: "pkg/protocol", LoopBound: 8, TimeoutS: 120},
			What:   "maxPaddingSize/maxPaddingSizeWithTrafficPattern: 0..255, never pushes a datagram past the MTU, honours configured maxima (0 = none) in every nil/non-nil combination of the pattern",
			Bounds: "MTU 1280..1500, fragment 0..65535, existing padding 0..255, all int32 maxima", Outside: "-"},
	)
	reg("C09",
		HarnessDef{ID: "H9.1", Spec: HarnessSpec{Name: "vH_C09_hash_password", Pkg: "pkg/cipher", LoopBound: 40, TimeoutS: 120},
			What: "HashPassword(pw, user) == SHA-256(pw | 0x00 | user) for password lengths 0..3 and user lengths 1..3 (SHA-256 uninterpreted: any other byte string fed to it is a counterexample)", Bounds: "lengths case-split as stated, contents symbolic", Outside: "longer inputs (no length-dependent branch in the code)"},
		HarnessDef{ID: "H9.2", Spec: HarnessSpec{Name: "vH_C08_key_is_function_of_slot", Pkg: "pkg/cipher", LoopBound: 40, TimeoutS: 120},
			What: "key i = PBKDF2-SHA256(hashedPassword, SHA-256(BE64(slot_i)), 64 iterations, 32 bytes) for the three documented slots (any other iteration count, length, order or endianness is a counterexample)", Bounds: "all instants, 32-byte password", Outside: "the primitives themselves"},
		HarnessDef{ID: "H9.3", Spec: HarnessSpec{Name: "vH_C09_user_hint", Pkg: "pkg/cipher", LoopBound: 40, TimeoutS: 120},
			What: "addUserHintToNonce: nonce[20:24] = first 4 bytes of SHA-256(username | nonce[0:16]), nonce[0:20] untouched; CheckUserFromHint accepts it", Bounds: "user names of 1..3 bytes, all nonces", Outside: "longer names"},
		HarnessDef{ID: "H9.5", Spec: HarnessSpec{Name: "vH_C09_increase_nonce", Pkg: "pkg/cipher", LoopBound: 40, TimeoutS: 120},
			What: "increaseNonce = +1 on the 192-bit big-endian integer (wrapping) for all 2^192 nonces", Bounds: "-", Outside: "-"},
		HarnessDef{ID: "H9.8", Spec: HarnessSpec{Name: "vH_C18_tunnel_frame", Pkg: "apis/common", LoopBound: 12, TimeoutS: 120},
			What: "UDP associate encapsulation = 00 | BE16(len) | data | ff", Bounds: "every length 0..70000", Outside: "-"},
		HarnessDef{ID: "H9.4a", Spec: HarnessSpec{Name: "vH_C09_session_layout", Pkg: "pkg/protocol", LoopBound: 20, TimeoutS: 120},
			What: "sessionStruct.Marshal emits the documented 32-byte layout for all field values; Unmarshal accepts every documented-valid layout and returns the fields", Bounds: "all field values; clock 2020..2100", Outside: "-"},
		HarnessDef{ID: "H9.4b", Spec: HarnessSpec{Name: "vH_C09_dataack_layout", Pkg: "pkg/protocol", LoopBound: 20, TimeoutS: 120},
			What: "dataAckStruct.Marshal emits the documented layout incl. the low entropy extension; Unmarshal round trip", Bounds: "all field values; clock 2020..2100", Outside: "-"},
	)
	reg("C11",
		HarnessDef{ID: "H11.1s-0", Spec: HarnessSpec{Name: "vH_C11_shaped_nocred", Pkg: "pkg/socks5", LoopBound: 12, LoopBounds: map[string]int{"ReadAtLeast": 2}, TimeoutS: 120, Par: 4},
			What: "complete RFC 1928/1929 negotiations with case-split field lengths (1..2 methods, user/password 1..2 bytes) and symbolic bytes, no credentials configured: success only with reply 05 00", Bounds: "8 shapes, all byte values", Outside: "longer fields (H11.1 covers symbolic lengths)"},
		HarnessDef{ID: "H11.1s-1", Spec: HarnessSpec{Name: "vH_C11_shaped_1cred", Pkg: "pkg/socks5", LoopBound: 12, LoopBounds: map[string]int{"ReadAtLeast": 2}, TimeoutS: 120, Par: 6},
			What: "same shapes, one configured credential: success => reply 05 02 / 01 00 and the presented pair equals it", Bounds: "8 shapes, credentials <= 3 bytes", Outside: "as above"},
		HarnessDef{ID: "H11.1s-2q", Spec: HarnessSpec{Name: "vH_C11_shaped_2cred_small", Pkg: "pkg/socks5", LoopBound: 12, LoopBounds: map[string]int{"ReadAtLeast": 2}, TimeoutS: 240, Par: 6},
			What: "two configured credentials with 1-byte user and password (symbolic), complete negotiations offering 1..2 methods and presenting a 1-byte user/password: success => reply 05 02 / 01 00 and the presented user AND password equal ONE configured pair (not the user of one and the password of the other)", Bounds: "1-byte fields, all byte values", Outside: "longer fields: H11.1s-2 (thorough)"},
		HarnessDef{ID: "H11.1s-2", Tier: "off", Spec: HarnessSpec{Name: "vH_C11_shaped_2cred", Pkg: "pkg/socks5", LoopBound: 12, LoopBounds: map[string]int{"ReadAtLeast": 2}, TimeoutS: 120, Par: 6},
			What: "same shapes, two configured credentials: success => the presented user AND password equal ONE configured pair", Bounds: "8 shapes, credentials <= 3 bytes", Outside: "as above"},
		HarnessDef{ID: "H11.1-0", Tier: "thorough", Spec: HarnessSpec{Name: "vH_C11_auth_nocred", Pkg: "pkg/socks5", LoopBound: 12, LoopBounds: map[string]int{"ReadAtLeast": 2}, TimeoutS: 120, Par: 4},
			What:   "handleAuthentication on an arbitrary byte stream, no credentials configured: success only via method 0x00 with reply 05 00",
			Bounds: "<= 6 offered methods, stream <= 19 bytes, full-size reads (chunking invariance of io.ReadFull is the standard library's)", Outside: "method lists longer than 6"},
		HarnessDef{ID: "H11.1-1", Tier: "thorough", Spec: HarnessSpec{Name: "vH_C11_auth_1cred", Pkg: "pkg/socks5", LoopBound: 12, LoopBounds: map[string]int{"ReadAtLeast": 2}, TimeoutS: 120, Par: 4},
			What:   "handleAuthentication, one configured credential: success only after reply 05 02 and a presented user/password equal to it",
			Bounds: "<= 6 methods, user/password <= 3 bytes, stream <= 19 bytes", Outside: "longer credentials (length bytes are symbolic, contents compared bytewise up to 3)"},
		HarnessDef{ID: "H11.1-2", Tier: "off", Spec: HarnessSpec{Name: "vH_C11_auth_2cred", Pkg: "pkg/socks5", LoopBound: 12, LoopBounds: map[string]int{"ReadAtLeast": 2}, TimeoutS: 120, Par: 4},
			What: "same with two configured credentials", Bounds: "as H11.1-1", Outside: "as H11.1-1"},
	)
	ral := map[string]int{"ReadAtLeast": 2}
	reg("C12",
		HarnessDef{ID: "H12.1-v4", Spec: HarnessSpec{Name: "vH_C12_findaction_ipv4", Pkg: "pkg/socks5", LoopBound: 30, LoopBounds: ral, TimeoutS: 120, Par: 2},
			What:   "Server.FindAction on every IPv4 CONNECT/UDP-ASSOCIATE request x every user state (absent, unknown, known with each flag set/unset/missing): local destination (127/8, 0.0.0.0, 10/8, 172.16/12, 192.168/16) without the permission => REJECT; public or permitted => DIRECT",
			Bounds: "all 2^32 addresses and ports, no egress rules configured", Outside: "egress rule lists (H12.2)"},
		HarnessDef{ID: "H12.1-v6", Spec: HarnessSpec{Name: "vH_C12_findaction_ipv6", Pkg: "pkg/socks5", LoopBound: 30, LoopBounds: ral, TimeoutS: 120, Par: 2},
			What:   "same for every IPv6 destination incl. ::1, ::, fc00::/7 and IPv4-mapped forms of every IPv4 class",
			Bounds: "all 2^128 addresses", Outside: "egress rule lists"},
		HarnessDef{ID: "H12.1-fqdn", Spec: HarnessSpec{Name: "vH_C12_findaction_fqdn", Pkg: "pkg/socks5", LoopBound: 30, LoopBounds: ral, TimeoutS: 120, Par: 8},
			What:   "same for every domain-name destination of length 0..24: the empty name and the eight well-known local names in ANY letter case are refused without the loopback permission; every other name is DIRECT",
			Bounds: "name length 0..24 (case split), all byte contents", Outside: "names longer than 24 bytes (no well-known local name is longer); what a resolver returns for other names"},
	)
	reg("C18",
		HarnessDef{ID: "H18.1a", Spec: HarnessSpec{Name: "vH_C18_tunnel_frame", Pkg: "apis/common", LoopBound: 12, TimeoutS: 120},
			What:   "PacketOverStreamTunnel.Write: frame = 00 | BE16(len) | data | ff, exactly one conn write of len+4 bytes; > 65535 bytes is an error and nothing is written",
			Bounds: "every datagram length 0..70000 (symbolic), contents abstract", Outside: "-"},
		HarnessDef{ID: "H18.1b-q", Tier: "off", Spec: HarnessSpec{Name: "vH_C18_tunnel_roundtrip_quick", Pkg: "apis/common", LoopBound: 12, LoopBounds: map[string]int{"ReadAtLeast": 5}, TimeoutS: 240, Par: 8},
			What: "two datagrams (sizes 0..2 x 0..1) written then read back through a stream delivered in ARBITRARY chunks: same boundaries, same bytes, then an error", Bounds: "sizes 0..2 x 0..1, chunk sizes arbitrary", Outside: "larger datagrams: H18.1b (thorough), H18.1a/c"},
		HarnessDef{ID: "H18.1b", Tier: "off", Spec: HarnessSpec{Name: "vH_C18_tunnel_roundtrip", Pkg: "apis/common", LoopBound: 12, LoopBounds: map[string]int{"ReadAtLeast": 5}, TimeoutS: 240, Par: 6},
			What:   "two datagrams written then read back through a stream delivered in ARBITRARY chunks: same boundaries, same bytes (symbolic contents incl. marker values), then an error (no phantom datagram)",
			Bounds: "datagram sizes 0..3 x 0..3 (case split), chunk sizes arbitrary 1..16, reader buffer 4", Outside: "larger datagrams only through H18.1a/H18.1c (the framing code has no size-dependent branch other than the two checked there)"},
		HarnessDef{ID: "H18.1c", Spec: HarnessSpec{Name: "vH_C18_tunnel_malformed", Pkg: "apis/common", LoopBound: 12, LoopBounds: map[string]int{"ReadAtLeast": 5}, TimeoutS: 120, Par: 2},
			What:   "PacketOverStreamTunnel.Read on an arbitrary (malformed, truncated) stream in arbitrary chunks: success <=> one well-formed frame that fits the buffer, payload delivered unchanged; otherwise an error with n == 0",
			Bounds: "stream <= 10 bytes, buffer 4 bytes", Outside: "-"},
		HarnessDef{ID: "H18.2a", Spec: HarnessSpec{Name: "vH_C18_wrapper_readfrom_v4", Pkg: "apis/common", LoopBound: 20, LoopBounds: ral, TimeoutS: 120},
			What: "UDPAssociateWrapper.ReadFrom: IPv4 header + payload of size 0..3 is delivered with the same boundary, bytes and the header's address/port", Bounds: "payload 0..3 bytes (case split), all header/payload contents", Outside: "-"},
		HarnessDef{ID: "H18.2b", Spec: HarnessSpec{Name: "vH_C18_wrapper_readfrom_v6", Pkg: "apis/common", LoopBound: 20, LoopBounds: ral, TimeoutS: 120},
			What: "same with an IPv6 header", Bounds: "as H18.2a", Outside: "-"},
		HarnessDef{ID: "H18.2c", Spec: HarnessSpec{Name: "vH_C18_wrapper_writeto", Pkg: "apis/common", LoopBound: 12, TimeoutS: 120},
			What: "UDPAssociateWrapper.WriteTo: datagram = 00 00 00 01 | addr | port | payload, sent to the named destination", Bounds: "payload 0..3 bytes, all IPv4 addresses/ports", Outside: "IPv6/FQDN destinations in WriteTo"},
	)
	c06R := map[string]string{"(*github.com/enfein/mieru/v3/pkg/replay.ReplayCache).computeSignature": "vStubSignature"}
	c06P := []SrcPatch{
		{File: "pkg/replay/replay.go", Old: "time.Now()", New: "vNow()", All: true},
		{File: "pkg/replay/replay.go", Old: "time.Since(", New: "vSince(", All: true},
		{File: "pkg/replay/replay.go", Old: "func (c *ReplayCache) computeSignature(data []byte) uint64 {\n", New: "func (c *ReplayCache) computeSignature(data []byte) uint64 {\n\tif len(data) == 1 {\n\t\treturn vStubSignature(c, data)\n\t}\n"},
	}
	reg("C06",
		HarnessDef{ID: "H6.1a", Spec: HarnessSpec{Name: "vH_C06_cache_bmc", Pkg: "pkg/replay", LoopBound: 8, TimeoutS: 240, Par: 8, Solver: "cvc5-int", TimeUnit: "ns", Redirects: c06R}, ReplayPatches: c06P,
			What:   "ReplayCache.IsDuplicate vs an ideal bounded set over every history of 5 calls from a fresh cache: never-seen => false; seen less than the interval ago and followed by fewer distinct items than the capacity => true; generations never exceed the capacity",
			Bounds: "5 calls, capacity 1..3 and interval 1 ns..1 h symbolic, 4-item alphabet, arbitrary non-decreasing clock (ns) at every time.Now/time.Since inside a call, tag feature off; signatures = the items (FNV stubbed: injective on 1-byte data)", Outside: "histories longer than 5 calls; FNV collisions"},
		HarnessDef{ID: "H6.1b", Spec: HarnessSpec{Name: "vH_C06_cache_bmc_tagsF", Pkg: "pkg/replay", LoopBound: 8, TimeoutS: 400, Par: 8, Solver: "cvc5-int", TimeUnit: "ns", Redirects: c06R}, ReplayPatches: c06P,
			What:   "every history of 4 calls with arbitrary tags from {\"\", a, b}: a never-seen item is never reported; an item ACCEPTED under one tag less than the interval ago and followed by fewer distinct items than the capacity is reported EVERY time it is offered under another tag (or with either tag empty) - so a recorded datagram re-sent from another address is refused on the second attempt too",
			Bounds: "4 calls, capacity 1..3, interval 1000 ns, 4-item alphabet, arbitrary non-decreasing clock at every reading", Outside: "longer histories; symbolic interval (thorough H6.1b-s); FNV collisions"},
		HarnessDef{ID: "H6.1b-s", Tier: "off", Spec: HarnessSpec{Name: "vH_C06_cache_bmc_tags", Pkg: "pkg/replay", LoopBound: 8, TimeoutS: 1500, Par: 8, Solver: "cvc5-int", TimeUnit: "ns", Redirects: c06R}, ReplayPatches: c06P,
			What: "same as H6.1b with a symbolic interval 1 ns..1 h", Bounds: "4 calls, capacity 1..3, 4 items", Outside: "as H6.1b"},
		HarnessDef{ID: "H6.1c", Spec: HarnessSpec{Name: "vH_C06_cache_disabled", Pkg: "pkg/replay", LoopBound: 8, TimeoutS: 60},
			What: "nil cache and capacity 0 never report a replay and never panic", Bounds: "-", Outside: "-"},
	)
	reg("C20",
		HarnessDef{ID: "H20.3q", Spec: HarnessSpec{Name: "vH_C20_url_to_config_contract", Pkg: "pkg/appctl", LoopBound: 16, TimeoutS: 120, Par: 8, Redirects: map[string]string{"net/url.Parse": "vStubURLParse"}},
			What:   "URLToClientConfig on EVERY string of up to 12 bytes with net/url.Parse replaced by a contract stub (scheme / opaque / error as documented; authority and path arbitrary): an error or a config, never a panic",
			Bounds: "strings <= 12 bytes; base64 and protobuf decoding opaque", Outside: "fidelity of the stub to net/url (the thorough harness H20.3a executes the real parser)"},
		HarnessDef{ID: "H20.3a", Tier: "off", Spec: HarnessSpec{Name: "vH_C20_url_to_config_nopanic7", Pkg: "pkg/appctl", LoopBound: 12, TimeoutS: 120, Par: 14},
			What:   "URLToClientConfig on EVERY string of up to 7 bytes (every string shorter than the 8-byte prefix), with the REAL net/url.Parse executed symbolically: an error or a config, never a panic",
			Bounds: "strings <= 7 bytes; base64 and protobuf decoding opaque", Outside: "longer links (the only length-dependent step is the 8-byte prefix cut, covered by H20.3q up to 12 bytes)"},
	)
	sess := map[string]string{
		"github.com/google/btree.NewG":                           "vTreeNew",
		"(*github.com/google/btree.BTreeG[T]).Len":               "vTreeLen",
		"(*github.com/google/btree.BTreeG[T]).ReplaceOrInsert":   "vTreeReplaceOrInsert",
		"(*github.com/google/btree.BTreeG[T]).Min":               "vTreeMin",
		"(*github.com/google/btree.BTreeG[T]).Max":               "vTreeMax",
		"(*github.com/google/btree.BTreeG[T]).DeleteMin":         "vTreeDeleteMin",
		"(*github.com/google/btree.BTreeG[T]).Clear":             "vTreeClear",
		"(*github.com/google/btree.BTreeG[T]).Ascend":            "vTreeAscend",
		"(*github.com/enfein/mieru/v3/pkg/protocol.Session).output": "vStubOutput",
		"github.com/enfein/mieru/v3/pkg/metrics.RegisterMetric":  "vStubRegisterMetric",
	}
	sessLB := map[string]int{"closeWithError": 1001}
	sessNote := "B-tree replaced by a sorted-set model of capacity 4 (DESIGN 3.5); Session.output and metric registration stubbed; mutexes no-ops (mutual exclusion assumed); goroutine interleavings other than the modelled ones outside the claim"
	reg("C13",
		HarnessDef{ID: "H13.1", Spec: HarnessSpec{Name: "vH_C13_inputData_packet", Pkg: "pkg/protocol", LoopBound: 8, LoopBounds: sessLB, TimeoutS: 240, Par: 6, Redirects: sess},
			What:   "UDP receive side, one step of the real Session.inputData/moveRecvBufToRecvQueue from an arbitrary (nextRecv, recvBuf) state and an arbitrary incoming data segment: nextRecv advances exactly over the consecutive run delivered, duplicates dropped, nothing beyond a gap delivered or acknowledged",
			Bounds: "<= 2 buffered out-of-order segments, payload <= 2 bytes, sequence numbers within 8 of nextRecv, no 32-bit wrap", Outside: sessNote},
	)
	reg("C01",
		HarnessDef{ID: "H1.3", Spec: HarnessSpec{Name: "vH_C01_read_step", Pkg: "pkg/protocol", LoopBound: 8, LoopBounds: sessLB, TimeoutS: 240, Par: 6, Redirects: sess},
			What:   "one real Session.Read from an arbitrary (unreadBuf, recvQueue) state with an arbitrary buffer size: returned bytes are the next n bytes of the stream in order, n >= 1 when data is available, the remainder stays queued in order, nothing lost or duplicated",
			Bounds: "unreadBuf <= 3 bytes, <= 2 queued segments of <= 2 bytes, buffer 0..4 bytes, both transports, client and server", Outside: sessNote},
	)
	reg("C10",
		HarnessDef{ID: "H10.1", Spec: HarnessSpec{Name: "vH_C10_input_nopanic", Pkg: "pkg/protocol", LoopBound: 8, LoopBounds: sessLB, TimeoutS: 240, Par: 6, Redirects: sess},
			What:   "real Session.input on any authenticated segment (every protocol byte 0..255, both metadata kinds, arbitrary seq/ack/window/fragment/status fields, cipher of ANY user incl. not the session's owner) against client/server x TCP/UDP x attached/established x bound/unbound sessions: no reachable panic",
			Bounds: "user names <= 2 bytes, empty receive/send buffers in the pre-state", Outside: sessNote},
	)
	reg("C15",
		HarnessDef{ID: "H15.1", Spec: HarnessSpec{Name: "vH_C15_close_twice", Pkg: "pkg/protocol", LoopBound: 8, LoopBounds: sessLB, TimeoutS: 240, Par: 4, Redirects: sess},
			What:   "Close / closeWithError repeated three times in any of the session states: no panic, closedChan closed exactly once, at most one close request emitted, Write afterwards fails and Read with nothing queued returns io.EOF (no blocking)",
			Bounds: "sequential calls on one goroutine", Outside: "promptness in seconds, leaked goroutines, data races, arbitrary interleavings of Close with blocked peers (not decidable by sequential symbolic execution)"},
	)
	reg("C16",
		HarnessDef{ID: "H16.1", Spec: HarnessSpec{Name: "vH_C16_newconfig", Pkg: "apis/trafficpattern", LoopBound: 40, TimeoutS: 240, Par: 6},
			What:   "NewConfig/generateImplicitTrafficPattern over every valid TrafficPattern (each optional field independently nil or any admitted value): explicit fields identical in Effective(), all implicit fields generated, Validate(Effective()) == nil, NONCE_TYPE_FIXED never generated, deterministic on a second derivation, invalid patterns rejected",
			Bounds: "customHexStrings empty; rng.FixedInt an uninterpreted function of (n, hint); proto.Clone = deep copy", Outside: "Encode/Decode (protobuf + base64 reflection code); hex prefixes"},
	)
	c19P := []SrcPatch{
		{File: "pkg/metrics/counter.go", Old: "time.Now()", New: "vNow()", All: true},
		{File: "pkg/metrics/counter.go", Old: "time.Since(", New: "vSince(", All: true},
	}
	reg("C19",
		HarnessDef{ID: "H19.1q", Spec: HarnessSpec{Name: "vH_C19_rollup_total2", Pkg: "pkg/metrics", LoopBound: 6, TimeoutS: 240, Par: 4, TimeUnit: "ms"}, ReplayPatches: c19P,
			What: "Counter.doRollUp (first pass) on two un-rolled entries, arbitrary ordered times and clock: the total is preserved and DeltaBetween of any window <= total", Bounds: "2 entries, times 2020..2100 in ms (millisecond time model)", Outside: "ordering in time: H19.1a (thorough); longer histories; later passes"},
		HarnessDef{ID: "H19.1a", Tier: "off", Spec: HarnessSpec{Name: "vH_C19_rollup_order2", Pkg: "pkg/metrics", LoopBound: 6, TimeoutS: 1500, Par: 4, TimeUnit: "ms"}, ReplayPatches: c19P,
			What:   "Counter.doRollUp (first pass) on two un-rolled entries with arbitrary ordered times and an arbitrary non-decreasing clock at every reading: total preserved, history stays ordered in time, DeltaBetween of any window <= total",
			Bounds: "2 entries, times 2020..2100 in ms", Outside: "longer histories and later passes (H19.1b when listed)"},
	)
	envR := map[string]string{}
	for k, v := range sess {
		envR[k] = v
	}
	envR["(*github.com/enfein/mieru/v3/pkg/protocol.segmentTree).Len"] = "vStubTreeLenEnv"
	reg("C03",
		HarnessDef{ID: "H3.2", Spec: HarnessSpec{Name: "vH_C03_read_eof_means_drained", Pkg: "pkg/protocol", LoopBound: 8, LoopBounds: sessLB, TimeoutS: 240, Par: 6, Redirects: envR, IgnoreBlocked: true}, ReplayFn: "vR_C03_read_eof",
			ReplayPatches: []SrcPatch{{File: "pkg/protocol/session.go", Old: "\t\tif s.recvQueue.Len() > 0 {\n\t\t\t// Read segments from recv queue.", New: "\t\tif vReplayLenHook(s) > 0 {\n\t\t\t// Read segments from recv queue."}},
			What:   "real Session.Read with an environment step (another goroutine may queue the next data segment and/or complete the close right after Read looked at the queue; the select choice among ready cases is symbolic): io.EOF is returned only when the receive queue and unread buffer are empty",
			Bounds: "one environment step at the queue-length check, segment payload 1..2 bytes, both transports, client and server", Outside: sessNote + "; the sender side and the UDP close ordering (see DESIGN.md, known findings)"},
	)
	outR := map[string]string{}
	for k, v := range sess {
		outR[k] = v
	}
	outR["(*github.com/enfein/mieru/v3/pkg/congestion.RTTStats).RTO"] = "vStubRTO"
	outR["(*github.com/enfein/mieru/v3/pkg/congestion.CubicSendAlgorithm).CongestionWindowSize"] = "vStubCwnd"
	outR["(*github.com/enfein/mieru/v3/pkg/congestion.CubicSendAlgorithm).OnTimeout"] = "vStubCubicEvent"
	outR["(*github.com/enfein/mieru/v3/pkg/congestion.CubicSendAlgorithm).OnLoss"] = "vStubCubicEvent"
	outR["(*github.com/enfein/mieru/v3/pkg/congestion.CubicSendAlgorithm).OnAck"] = "vStubCubicEvent"
	outputPatch := SrcPatch{File: "pkg/protocol/session.go", Old: "func (s *Session) output(seg *segment, remoteAddr net.Addr) error {\n", New: "func (s *Session) output(seg *segment, remoteAddr net.Addr) error {\n\tif vReplayRedirect {\n\t\treturn vStubOutput(s, seg, remoteAddr)\n\t}\n"}
	reg("C13",
		HarnessDef{ID: "H13.2", Spec: HarnessSpec{Name: "vH_C13_output_packet", Pkg: "pkg/protocol", LoopBound: 8, LoopBounds: sessLB, TimeoutS: 240, Par: 6, Redirects: outR},
			ReplayPatches: []SrcPatch{outputPatch},
			What:   "one pass of the real UDP output loop (runOutputOncePacket) from an arbitrary state - a segment in the send buffer with arbitrary timers/counters, a new segment in the send queue, possibly a segment buffered ahead of a receive gap, arbitrary windows and clock: every emitted data/ack datagram carries unAckSeq == nextRecv; a (re)transmitted segment keeps type, seq, fragment, length and payload; queued data of a still-opening client session is deferred (C02 H2.1)",
			Bounds: "<= 1 segment per queue, payload <= 1 byte, RTO/cwnd arbitrary in range (congestion control stubbed by range contract)", Outside: sessNote},
	)
	ulR := map[string]string{}
	for k, v := range sess {
		ulR[k] = v
	}
	delete(ulR, "(*github.com/enfein/mieru/v3/pkg/protocol.Session).output")
	ulR["github.com/enfein/mieru/v3/pkg/protocol.newPadding"] = "vStubNewPadding"
	ulR["(*github.com/enfein/mieru/v3/pkg/protocol.StreamUnderlay).serverInitRecvBlockCipherAndDecryptMetadata"] = "vStubServerInitRecv"
	ulFail := map[string]string{}
	for k, v := range ulR {
		ulFail[k] = v
	}
	ulFail["(*github.com/enfein/mieru/v3/pkg/protocol.StreamUnderlay).serverInitRecvBlockCipherAndDecryptMetadata"] = "vStubServerInitRecvFail"
	ulLB := map[string]int{"ReadAtLeast": 2, "vTCPFrame": 4, "RunEventLoop": 2, "vH_C04_tcp_tamper": 80}
	ulNote := "ideal AEAD at the cipher.BlockCipher level (Seal records, Open succeeds iff an identical record exists); newPadding replaced by a contract stub (any bytes, planned length <= the requested maximum); server user discovery replaced by its outcome (succeeds for the sender's credential / fails); full-size reads on the fake connection"
	reg("C01",
		HarnessDef{ID: "H1.1a", Tier: "off", Spec: HarnessSpec{Name: "vH_C01_tcp_frame_data", Pkg: "pkg/protocol", LoopBound: 64, LoopBounds: ulLB, TimeoutS: 300, Par: 6, Redirects: ulR},
			What:   "TCP framing: a client underlay's real writeOneSegment emits two data segments; the bytes are laid out as documented (nonce only on the first, metadata+tag, padding1, payload+tag, padding2, lengths as recorded in the metadata) and a server underlay's real readOneSegment returns the same two segments, consuming exactly the bytes written with nonce counters in step (also C09 H9.6, C14 H14.2-stream, C16 H16.2)",
			Bounds: "payloads 0..2 bytes, padding lengths 0..2 (case split), two segments", Outside: ulNote},
		HarnessDef{ID: "H1.1b", Tier: "off", Spec: HarnessSpec{Name: "vH_C01_tcp_frame_session", Pkg: "pkg/protocol", LoopBound: 64, LoopBounds: ulLB, TimeoutS: 300, Par: 6, Redirects: ulR},
			What: "same for session (open request) segments with piggybacked payload", Bounds: "as H1.1a", Outside: ulNote},
	)
	reg("C09",
		HarnessDef{ID: "H9.6", Tier: "off", Spec: HarnessSpec{Name: "vH_C01_tcp_frame_data", Pkg: "pkg/protocol", LoopBound: 64, LoopBounds: ulLB, TimeoutS: 300, Par: 6, Redirects: ulR},
			What: "TCP segment layout and nonce progression as documented (see C01 H1.1a)", Bounds: "as C01 H1.1a", Outside: ulNote},
	)
	reg("C04",
		HarnessDef{ID: "H4.1", Spec: HarnessSpec{Name: "vH_C04_tcp_tamper", Pkg: "pkg/protocol", LoopBound: 64, LoopBounds: ulLB, TimeoutS: 300, Par: 6, Redirects: ulR},
			What:   "after one genuine data segment was written, the server's real readOneSegment parses an ARBITRARY 92-byte stream: if it returns a segment at all, type, ids, sequence, ack fields and payload are the genuine ones and the authenticated bytes equal the genuine bytes; every rejection is a typed error",
			Bounds: "one segment, payload 2 bytes, padding 1+1", Outside: ulNote + "; UDP datagrams (H4.2) not built"},
	)
	reg("C05",
		HarnessDef{ID: "H5.1", Spec: HarnessSpec{Name: "vH_C05_tcp_silence", Pkg: "pkg/protocol", LoopBound: 64, LoopBounds: ulLB, TimeoutS: 300, Par: 4, Redirects: ulFail},
			What:   "real StreamUnderlay.RunEventLoop (server) on an arbitrary byte string of any length 0..80 from a peer without a registered credential (discovery fails): the loop returns with an error, nothing is written, no session exists, nothing is handed to the application, the connection is closed",
			Bounds: "streams <= 80 bytes", Outside: ulNote + "; UDP (H5.2) not built; timing side channels"},
	)
	reg("C02",
		HarnessDef{ID: "H2.a", Spec: HarnessSpec{Name: "vH_C13_inputData_packet", Pkg: "pkg/protocol", LoopBound: 8, LoopBounds: sessLB, TimeoutS: 240, Par: 6, Redirects: sess},
			What: "safety part only: in-order exactly-once delivery step of the UDP receive path (= C13 H13.1)", Bounds: "as C13 H13.1", Outside: "liveness / completion under fair loss (unbounded; not decidable here); " + sessNote},
		HarnessDef{ID: "H2.1", Spec: HarnessSpec{Name: "vH_C13_output_packet", Pkg: "pkg/protocol", LoopBound: 8, LoopBounds: sessLB, TimeoutS: 240, Par: 6, Redirects: outR}, ReplayPatches: []SrcPatch{outputPatch},
			What: "one output pass: acks cumulative, retransmissions unchanged, data deferred while the client session is opening (= C13 H13.2 incl. the H2.1 deferral assertion)", Bounds: "as C13 H13.2", Outside: "liveness; " + sessNote},
	)
}

func init() {
	sess := map[string]string{
		"github.com/google/btree.NewG":                           "vTreeNew",
		"(*github.com/google/btree.BTreeG[T]).Len":               "vTreeLen",
		"(*github.com/google/btree.BTreeG[T]).ReplaceOrInsert":   "vTreeReplaceOrInsert",
		"(*github.com/google/btree.BTreeG[T]).Min":               "vTreeMin",
		"(*github.com/google/btree.BTreeG[T]).Max":               "vTreeMax",
		"(*github.com/google/btree.BTreeG[T]).DeleteMin":         "vTreeDeleteMin",
		"(*github.com/google/btree.BTreeG[T]).Clear":             "vTreeClear",
		"(*github.com/google/btree.BTreeG[T]).Ascend":            "vTreeAscend",
		"(*github.com/enfein/mieru/v3/pkg/protocol.Session).output": "vStubOutput",
		"github.com/enfein/mieru/v3/pkg/metrics.RegisterMetric":  "vStubRegisterMetric",
	}
	sessLB := map[string]int{"closeWithError": 1001}
	sessNote := "B-tree replaced by a sorted-set model of capacity 4 (DESIGN 3.5); Session.output and metric registration stubbed; mutexes no-ops (mutual exclusion assumed); goroutine interleavings other than the modelled ones outside the claim"
	wr := map[string]string{"time.Sleep": "vStubSleepEnv"}
	for k, v := range sess {
		wr[k] = v
	}
	wrNote := sessNote + "; the output loop is the environment: at every back-pressure sleep it pops the head of the send queue"
	gates := HarnessDef{ID: "H5.3", Spec: HarnessSpec{Name: "vH_C05_server_gates", Pkg: "pkg/protocol", LoopBound: 8, TimeoutS: 60},
		What:   "validateServerSegmentDirection / validateNewServerSessionSegment for EVERY protocol byte and metadata kind: the direction gate passes exactly the client-to-server types of docs/protocol.md (a server's own output reflected back never passes), and only an open-session request with non-zero id may create a server session",
		Bounds: "all 256 protocol values, all field values", Outside: "-"}
	reg("C05", gates)
	dir := HarnessDef{ID: "H4.4", Spec: HarnessSpec{Name: "vH_C04_input_direction", Pkg: "pkg/protocol", LoopBound: 8, LoopBounds: sessLB, TimeoutS: 240, Par: 6, Redirects: sess},
		What:   "real Session.input on every protocol byte x client/server x TCP/UDP x attached/established: a segment type the peer of this session cannot legitimately send (wrong direction incl. the low-entropy data types, undefined types) is refused with an error and leaves the session untouched - nothing queued for the application, nothing acknowledged, nothing sent, not closed",
		Bounds: "one segment, payload 1 byte", Outside: sessNote}
	reg("C04", dir)
	reg("C10", dir)
	win := HarnessDef{ID: "H2.4", Spec: HarnessSpec{Name: "vH_C02_window_update", Pkg: "pkg/protocol", LoopBound: 8, LoopBounds: sessLB, TimeoutS: 240, Par: 6, Redirects: sess},
		What:   "real Session.input -> inputAck / inputData on UDP from an arbitrary send buffer: the send window follows the window advertised by EVERY accepted data/ack segment (also when nothing is in flight - the heartbeat that reopens a closed window); exactly the segments with seq < the peer's cumulative ack leave the send buffer (C13 H13.5)",
		Bounds: "<= 2 segments in flight, payload <= 1 byte", Outside: sessNote}
	reg("C02", win)
	reg("C13", win)
	reg("C02", HarnessDef{ID: "H2.5", Spec: HarnessSpec{Name: "vH_C02_open_response_reliable", Pkg: "pkg/protocol", LoopBound: 8, LoopBounds: sessLB, TimeoutS: 120, Par: 2, Redirects: sess},
		What:   "a server answers an open-session request by QUEUING the response in the reliable send path (send queue, next sequence number) - it is not fired once past the retransmission machinery",
		Bounds: "both transports", Outside: sessNote})
	wcU := HarnessDef{ID: "H1.2a", Spec: HarnessSpec{Name: "vH_C01_writechunk_udp", Pkg: "pkg/protocol", LoopBound: 8, LoopBounds: sessLB, TimeoutS: 240, Par: 6, Redirects: wr},
		What:   "real Session.writeChunk on UDP (MTU 1280, fragment 1192) for chunk lengths 1, 1192, 1193, 2384, 2385 with symbolic contents: ceil(len/fragment) segments with consecutive sequence numbers from nextSend, fragment numbers counting down to 0, all but the last full, lengths summing to len, byte i of the chunk at byte i-offset of its fragment, cumulative ack and session id stamped, and each segment OWNS its payload (reusing the caller's buffer after Write does not change later transmissions)",
		Bounds: "chunk lengths as listed (both sides of each fragment boundary), arbitrary nextSend/nextRecv, low entropy off", Outside: wrNote}
	wcT := HarnessDef{ID: "H1.2b", Spec: HarnessSpec{Name: "vH_C01_writechunk_tcp", Pkg: "pkg/protocol", LoopBound: 8, LoopBounds: sessLB, TimeoutS: 240, Par: 6, Redirects: wr},
		What: "same on TCP for chunk lengths 1, 1024, 1025, 32768 (one segment each)", Bounds: "as listed", Outside: wrNote}
	fw := HarnessDef{ID: "H14.3", Spec: HarnessSpec{Name: "vH_C14_first_write", Pkg: "pkg/protocol", LoopBound: 8, LoopBounds: sessLB, TimeoutS: 240, Par: 6, Redirects: wr},
		What:   "real Session.Write, first client write of 0, 1, 1024, 1025 bytes: the open-session request takes sequence number 0 and is created once; a first write of at most 1024 bytes rides on it (and the request owns a copy of the bytes, so its retransmission is unchanged), a larger one follows as one data segment with sequence number 1",
		Bounds: "lengths as listed, both transports, low entropy off", Outside: wrNote}
	reg("C01", wcU, wcT, fw)
	reg("C13", wcU, fw)
	reg("C14", wcU, wcT, fw)
	reg("C02", wcU)
}

func init() {
	sess := map[string]string{
		"github.com/google/btree.NewG":                           "vTreeNew",
		"(*github.com/google/btree.BTreeG[T]).Len":               "vTreeLen",
		"(*github.com/google/btree.BTreeG[T]).ReplaceOrInsert":   "vTreeReplaceOrInsert",
		"(*github.com/google/btree.BTreeG[T]).Min":               "vTreeMin",
		"(*github.com/google/btree.BTreeG[T]).Max":               "vTreeMax",
		"(*github.com/google/btree.BTreeG[T]).DeleteMin":         "vTreeDeleteMin",
		"(*github.com/google/btree.BTreeG[T]).Clear":             "vTreeClear",
		"(*github.com/google/btree.BTreeG[T]).Ascend":            "vTreeAscend",
		"(*github.com/enfein/mieru/v3/pkg/protocol.Session).output": "vStubOutput",
		"github.com/enfein/mieru/v3/pkg/metrics.RegisterMetric":  "vStubRegisterMetric",
		"io.ReadFull": "vStubReadFullLen",
		"(*github.com/enfein/mieru/v3/pkg/replay.ReplayCache).IsDuplicate": "vStubIsDuplicateAny",
	}
	reg("C10", HarnessDef{ID: "H10.2", ReplayPatches: []SrcPatch{{File: "pkg/protocol/metadata.go", Old: "time.Now()", New: "vNow()", All: true}}, Spec: HarnessSpec{Name: "vH_C10_stream_hostile_segment", Pkg: "pkg/protocol", ClockMin: 1900000000, ClockMax: 1900000001, LoopBound: 8, LoopBounds: map[string]int{"closeWithError": 1001, "ReadAtLeast": 3}, TimeoutS: 240, Par: 8, Redirects: sess},
		What:   "real StreamUnderlay.readOneSegment/readSessionSegment/readDataAckSegment/Unmarshal of an ESTABLISHED connection (client and server) whose peer holds the credential: every Decrypt is an oracle (fails, or yields ARBITRARY metadata / payload), the stream has any length 0..70000: never a panic; every error carries a type RunEventLoop accepts (it panics on NO_ERROR/UNKNOWN_ERROR); only protocol types 2..11 are passed on; never reads past the stream",
		Bounds: "one segment; low-entropy data types 10/11 excluded here (their 64-step bit loops are C17's)", Outside: "io.ReadFull replaced by a length-only model (the bytes read are irrelevant under a decrypt oracle); replay cache answer arbitrary; first segment of a server connection (user discovery) is C05/C07"})
}

func init() {
	q := map[string]string{
		"github.com/google/btree.NewG":                           "vTreeNew",
		"(*github.com/google/btree.BTreeG[T]).Len":               "vTreeLen",
		"(*github.com/google/btree.BTreeG[T]).ReplaceOrInsert":   "vTreeReplaceOrInsert",
		"(*github.com/google/btree.BTreeG[T]).Min":               "vTreeMin",
		"(*github.com/google/btree.BTreeG[T]).Max":               "vTreeMax",
		"(*github.com/google/btree.BTreeG[T]).DeleteMin":         "vTreeDeleteMin",
		"(*github.com/google/btree.BTreeG[T]).Clear":             "vTreeClear",
		"(*github.com/google/btree.BTreeG[T]).Ascend":            "vTreeAscend",
		"(*github.com/enfein/mieru/v3/pkg/protocol.Session).output": "vStubOutput",
		"github.com/enfein/mieru/v3/pkg/metrics.RegisterMetric":  "vStubRegisterMetric",
		"(*github.com/enfein/mieru/v3/pkg/metrics.Counter).DeltaBetween":  "vStubDeltaBetween",
		"github.com/enfein/mieru/v3/pkg/metrics.GetMetricGroupByName":     "vStubGetMetricGroup",
		"(*github.com/enfein/mieru/v3/pkg/metrics.MetricGroup).GetMetric": "vStubGetMetric",
	}
	lb := map[string]int{"closeWithError": 1001}
	note := "per-user counters replaced by ARBITRARY window totals (the k-th DeltaBetween query returns a symbolic value and records its window; conservation of the counters themselves is H19.1); policies built by the real serveruser.BuildPolicies; B-tree model; Session.output stubbed; mutexes no-ops"
	reg("C19",
		HarnessDef{ID: "H19.3a", Spec: HarnessSpec{Name: "vH_C19_check_quota", Pkg: "pkg/protocol", LoopBound: 8, LoopBounds: lb, TimeoutS: 120, Par: 4, Redirects: q},
			What:   "real Session.checkQuota for a user with 0, 1 or 2 quotas, arbitrary allowances and arbitrary per-window traffic: refused iff SOME window of the user's OWN policy is exceeded, each window judged on its own upload+download; a policy is never applied to another user name",
			Bounds: "<= 2 quotas, windows of 1/7/30/365 days, traffic < 2^50 bytes", Outside: note},
		HarnessDef{ID: "H19.3b", Spec: HarnessSpec{Name: "vH_C19_quota_window", Pkg: "pkg/protocol", LoopBound: 8, LoopBounds: lb, TimeoutS: 120, Par: 4, Redirects: q},
			What: "the window consulted for a quota of D days is exactly the last D*24h, for upload and download alike", Bounds: "D in {1,7,30,365}", Outside: note},
		HarnessDef{ID: "H19.3c", Spec: HarnessSpec{Name: "vH_C19_quota_refusal", Pkg: "pkg/protocol", LoopBound: 8, LoopBounds: lb, TimeoutS: 240, Par: 6, Redirects: q},
			What:   "real Session.input of an open-session request carrying early payload, both transports: a user over quota gets the quota status, no open-session response, a closed session, and NOTHING relayed (a Read returns no byte of the piggybacked payload); a user within its allowance is answered and its payload delivered",
			Bounds: "one quota, payload 2 bytes", Outside: note},
	)
}

func init() {
	pkW := map[string]string{
		"github.com/enfein/mieru/v3/pkg/protocol.newPadding":                  "vStubNewPaddingAnyLen",
		"github.com/enfein/mieru/v3/pkg/protocol.buildRecommendedPaddingOpts": "vStubRecommendedOpts",
		"github.com/enfein/mieru/v3/pkg/metrics.RegisterMetric":               "vStubRegisterMetric",
	}
	host := map[string]string{
		"github.com/enfein/mieru/v3/pkg/metrics.RegisterMetric":  "vStubRegisterMetric",
		"io.ReadFull": "vStubReadFullLen",
		"(*github.com/enfein/mieru/v3/pkg/replay.ReplayCache).IsDuplicate": "vStubIsDuplicateAny",
	}
	w := HarnessDef{ID: "H1.1w", Spec: HarnessSpec{Name: "vH_C01_stream_write_len", Pkg: "pkg/protocol", LoopBound: 8, TimeoutS: 240, Par: 6, Redirects: pkW},
		What:   "TCP framing, write side at length level: two consecutive segments (session or data, payload 0..1024 / 0..32768, every traffic pattern, every padding length) of a client StreamUnderlay through the real writeOneSegment: bytes written = [24-byte nonce, first segment only] + 48 + prefix + payload(+16) + suffix, with the prefix / suffix / payload lengths exactly as recorded in the metadata; the send cipher is derived on the first write; buffers large enough for every encryption",
		Bounds: "two segments; contents abstract", Outside: "length-level cipher (Encrypt checks the room it is given, writes nothing); newPadding = ANY length 0..maxLen; TCP fragmentation off; content-level round trip: H1.1a/b (thorough)"}
	r := HarnessDef{ID: "H1.1r", ReplayPatches: []SrcPatch{{File: "pkg/protocol/metadata.go", Old: "time.Now()", New: "vNow()", All: true}}, Spec: HarnessSpec{Name: "vH_C01_stream_read_len", Pkg: "pkg/protocol", ClockMin: 1900000000, ClockMax: 1900000001, LoopBound: 8, LoopBounds: map[string]int{"ReadAtLeast": 3}, TimeoutS: 240, Par: 8, Redirects: host},
		What:   "TCP framing, read side: for ARBITRARY authenticated metadata (decrypt oracle) and any stream length 0..70000, a successful readOneSegment consumed exactly 48 + prefix + payload(+16) + suffix bytes and returns a payload of the named length - together with H1.1w the next segment starts where the writer put it, for every padding and payload size",
		Bounds: "one segment of an established connection, client and server; low-entropy types excluded", Outside: "decrypt oracle; io.ReadFull length-only model; replay cache answer arbitrary"}
	reg("C01", w, r)
	reg("C09", HarnessDef{ID: "H9.6q", Spec: w.Spec, What: "TCP segment layout and nonce placement at length level (= C01 H1.1w): [nonce once] metadata+tag, padding1, payload+tag, padding2", Bounds: w.Bounds, Outside: w.Outside})
	reg("C14", w)
	reg("C18", HarnessDef{ID: "H18.3", Spec: HarnessSpec{Name: "vH_C18_udp_parse", Pkg: "pkg/socks5", LoopBound: 30, LoopBounds: map[string]int{"ReadAtLeast": 2}, TimeoutS: 120, Par: 4},
		What:   "real parseSocks5UDPDatagram on EVERY datagram of length 0, 6, 7, 10, 11, 12, 22, 24 (IPv4 / IPv6 / domain headers, empty and non-empty payloads, malformed and truncated input): no panic; success <=> RSV/FRAG zero and a complete known address; header = the datagram's own header bytes, payload = everything after it, port and IPv4 address as in the header; and the header is a COPY of the read buffer (the relay loop keeps it per destination while reusing its buffer: replies keep their own destination's address)",
		Bounds: "lengths as listed, all byte values", Outside: "the goroutine structure of RunUDPAssociateLoop"})
	reg("C10", registry["C18"][len(registry["C18"])-1])
}

func init() {
	sess := map[string]string{
		"github.com/google/btree.NewG":                           "vTreeNew",
		"(*github.com/google/btree.BTreeG[T]).Len":               "vTreeLen",
		"(*github.com/google/btree.BTreeG[T]).ReplaceOrInsert":   "vTreeReplaceOrInsert",
		"(*github.com/google/btree.BTreeG[T]).Min":               "vTreeMin",
		"(*github.com/google/btree.BTreeG[T]).Max":               "vTreeMax",
		"(*github.com/google/btree.BTreeG[T]).DeleteMin":         "vTreeDeleteMin",
		"(*github.com/google/btree.BTreeG[T]).Clear":             "vTreeClear",
		"(*github.com/google/btree.BTreeG[T]).Ascend":            "vTreeAscend",
		"(*github.com/enfein/mieru/v3/pkg/protocol.Session).output": "vStubOutput",
		"github.com/enfein/mieru/v3/pkg/metrics.RegisterMetric":  "vStubRegisterMetric",
	}
	sessLB := map[string]int{"closeWithError": 1001}
	sessNote := "B-tree replaced by a sorted-set model of capacity 4 (DESIGN 3.5); Session.output and metric registration stubbed; mutexes no-ops"
	ds := HarnessDef{ID: "H13.1s", Spec: HarnessSpec{Name: "vH_C13_inputData_session", Pkg: "pkg/protocol", LoopBound: 8, LoopBounds: sessLB, TimeoutS: 240, Par: 6, Redirects: sess},
		What:   "the UDP receive step when the incoming segment is a SESSION segment with an arbitrary sequence number (a duplicate open-session response at an established client, a duplicate open-session request at a server): it shares the sequence space and moves the cumulative ack only if it is the expected one - a duplicate never bumps nextRecv",
		Bounds: "as H13.1", Outside: sessNote}
	reg("C13", ds)
	reg("C02", ds)
	for _, d := range registry["C01"] {
		if d.ID == "H1.3" {
			d2 := d
			d2.ID = "H9.9"
			d2.What = "every session segment may carry payload (docs/protocol.md): an open-session response / request at the head of the receive queue hands its payload to the application like a data segment (= C01 H1.3)"
			reg("C09", d2)
		}
	}
	reg("C16", HarnessDef{ID: "H16.3", Spec: HarnessSpec{Name: "vH_C16_nonce_pattern", Pkg: "pkg/cipher", LoopBound: 40, TimeoutS: 240, Par: 4,
		Redirects: map[string]string{"github.com/enfein/mieru/v3/pkg/common.ToPrintableChar": "vStubToPrintable", "github.com/enfein/mieru/v3/pkg/common.ToCommon64Set": "vStubToCommon64"}},
		What:   "real aeadBlockCipher.SetNoncePattern / Clone / newNonceTo / nonceRewriteLen for every nonce type, length range and applyToAllUDPPacket setting, on the cipher and on its Clone (both TCP sending ciphers are clones): the configured alphabet is applied once from byte 0 over a prefix whose length lies in [minLen, maxLen]; a fixed-type nonce starts with one of the configured prefixes - on a clone too; a stateless cipher re-applies the pattern to later packets iff applyToAllUDPPacket",
		Bounds: "minLen <= maxLen <= 24, one 4-byte fixed prefix (two: H16.3b, thorough)", Outside: "the alphabet rewriters ToPrintableChar / ToCommon64Set are replaced by recorders (which range, which alphabet); proto.Clone modelled as a deep copy"})
	reg("C16", HarnessDef{ID: "H16.3b", Tier: "thorough", Spec: HarnessSpec{Name: "vH_C16_nonce_pattern2", Pkg: "pkg/cipher", LoopBound: 40, TimeoutS: 900, Par: 4,
		Redirects: map[string]string{"github.com/enfein/mieru/v3/pkg/common.ToPrintableChar": "vStubToPrintable", "github.com/enfein/mieru/v3/pkg/common.ToCommon64Set": "vStubToCommon64"}},
		What: "same as H16.3 with two fixed prefixes (the choice among them symbolic)", Bounds: "two 4-byte prefixes", Outside: "as H16.3"})
	reg("C16", HarnessDef{ID: "H16.3c", Spec: HarnessSpec{Name: "vH_C16_nonce_pattern_clone", Pkg: "pkg/cipher", LoopBound: 40, TimeoutS: 240, Par: 4,
		Redirects: map[string]string{"github.com/enfein/mieru/v3/pkg/common.ToPrintableChar": "vStubToPrintable", "github.com/enfein/mieru/v3/pkg/common.ToCommon64Set": "vStubToCommon64"}},
		What: "H16.3 on the cipher's Clone() - what both TCP sending directions use (client t.block.Clone(), server t.recv.Clone()): the clone reports the same pattern and its nonces exhibit it, fixed prefixes included", Bounds: "as H16.3", Outside: "as H16.3"})
	reg("C20", HarnessDef{ID: "H20.1", Spec: HarnessSpec{Name: "vH_C20_store_hashes_passwords", Pkg: "pkg/appctl/appctlcommon", LoopBound: 40, TimeoutS: 120, Par: 2},
		What:   "real HashUserPasswords(users, false) - what StoreServerConfig runs right before marshalling - on users with every mix of name / password / hashedPassword fields set or unset (incl. both): afterwards NO user carries a non-empty plaintext password, and a user that had one has a hashed password; keepPlaintext leaves the client's password in place",
		Bounds: "2 users, strings <= 2 bytes", Outside: "SHA-256 uninterpreted; the marshalling and file write themselves (reflection / I/O)"})
}

func init() {
	r := map[string]string{
		"github.com/enfein/mieru/v3/pkg/metrics.RegisterMetric":  "vStubRegisterMetric",
		"io.ReadFull": "vStubReadFullLen",
		"(*github.com/enfein/mieru/v3/pkg/replay.ReplayCache).IsDuplicate": "vStubIsDuplicateFirst",
		"(*github.com/enfein/mieru/v3/pkg/protocol.StreamUnderlay).serverInitRecvBlockCipherAndDecryptMetadata": "vStubServerInitOracle",
	}
	reg("C06", HarnessDef{ID: "H6.2a", Spec: HarnessSpec{Name: "vH_C06_stream_replay", Pkg: "pkg/protocol", LoopBound: 8, LoopBounds: map[string]int{"ReadAtLeast": 3}, TimeoutS: 120, Par: 4, Redirects: r},
		What:   "real StreamUnderlay.readOneSegment, first read of a server connection that the replay cache reports as seen (a byte-exact copy of traffic already accepted): whether or not it still decrypts (user discovery succeeds or fails, metadata arbitrary), nothing is passed on, the error is a REPLAY error (the event loop then drains and closes without writing, H5.1), not a byte is written, no session exists, no send cipher is derived",
		Bounds: "stream 72..200 bytes", Outside: "replay cache answer fixed to 'seen' for the first read (its own law is H6.1); discovery replaced by its outcome; io.ReadFull length-only"})
}

func init() {
	reg("C11", HarnessDef{ID: "H11.1s-e", Spec: HarnessSpec{Name: "vH_C11_shaped_empty", Pkg: "pkg/socks5", LoopBound: 12, LoopBounds: map[string]int{"ReadAtLeast": 2}, TimeoutS: 240, Par: 4},
		What:   "one configured (non-empty) credential, the client presents user and password of length 0..1: success => exactly the configured pair - an unknown or empty user with an empty password is never let in",
		Bounds: "field lengths 0..1, all byte values", Outside: "-"})
	reg("C12", HarnessDef{ID: "H12.3r", Spec: HarnessSpec{Name: "vH_C12_read_request", Pkg: "pkg/socks5", LoopBound: 30, LoopBounds: map[string]int{"ReadAtLeast": 2}, TimeoutS: 240, Par: 4,
		Redirects: map[string]string{"(*bytes.Buffer).Write": "vStubBufWrite", "(*bytes.Buffer).Bytes": "vStubBufBytes"}},
		What:   "the reader's half of the reader/decision contract (FindAction answers DIRECT for input whose first byte is not 5 and relies on the reader to have refused it): real Server.readRequest on every 10-byte string: success => version 5, Raw = exactly the bytes read (what the decision is taken on), command / IPv4 address / port parsed = those bytes (what is dialled)",
		Bounds: "10-byte requests (IPv4 form)", Outside: "bytes.Buffer as an append-only slice; reader + decision + dispatch composed in one run (vH_C12_serve_conn) is written but too slow to register"})
}

func init() {
	r := map[string]string{
		"github.com/google/btree.NewG":                           "vTreeNew",
		"(*github.com/google/btree.BTreeG[T]).Len":               "vTreeLen",
		"(*github.com/google/btree.BTreeG[T]).ReplaceOrInsert":   "vTreeReplaceOrInsert",
		"(*github.com/google/btree.BTreeG[T]).Min":               "vTreeMin",
		"(*github.com/google/btree.BTreeG[T]).Max":               "vTreeMax",
		"(*github.com/google/btree.BTreeG[T]).DeleteMin":         "vTreeDeleteMin",
		"(*github.com/google/btree.BTreeG[T]).Clear":             "vTreeClear",
		"(*github.com/google/btree.BTreeG[T]).Ascend":            "vTreeAscend",
		"(*github.com/enfein/mieru/v3/pkg/protocol.Session).output": "vStubOutput",
		"github.com/enfein/mieru/v3/pkg/metrics.RegisterMetric":  "vStubRegisterMetric",
		"(*github.com/enfein/mieru/v3/pkg/protocol.segmentTree).Remaining": "vStubRemainingFull",
	}
	reg("C15", HarnessDef{ID: "H15.2", Spec: HarnessSpec{Name: "vH_C15_wait_released_by_close", Pkg: "pkg/protocol", LoopBound: 8, LoopBounds: map[string]int{"closeWithError": 1001, "waitForRecvQueueSpace": 4}, TimeoutS: 120, Par: 2, Redirects: r},
		What:   "real Session.waitForRecvQueueSpace with the receive queue permanently full and an environment step (another goroutine's Close lands WHILE the waiter is parked): the waiter gives up right after the close instead of polling on - so the input loop, and with it underlay Close / Stop, is released",
		Bounds: "one waiter, close at its second look at the queue", Outside: "segmentTree.Remaining redirected (always full; closes the session on the second call); real timers; everything else concurrent about Close"})
}

func init() {
	sess := map[string]string{
		"github.com/google/btree.NewG":                           "vTreeNew",
		"(*github.com/google/btree.BTreeG[T]).Len":               "vTreeLen",
		"(*github.com/google/btree.BTreeG[T]).ReplaceOrInsert":   "vTreeReplaceOrInsert",
		"(*github.com/google/btree.BTreeG[T]).Min":               "vTreeMin",
		"(*github.com/google/btree.BTreeG[T]).Max":               "vTreeMax",
		"(*github.com/google/btree.BTreeG[T]).DeleteMin":         "vTreeDeleteMin",
		"(*github.com/google/btree.BTreeG[T]).Clear":             "vTreeClear",
		"(*github.com/google/btree.BTreeG[T]).Ascend":            "vTreeAscend",
		"(*github.com/enfein/mieru/v3/pkg/protocol.Session).output": "vStubOutput",
		"github.com/enfein/mieru/v3/pkg/metrics.RegisterMetric":  "vStubRegisterMetric",
	}
	lb := map[string]int{"closeWithError": 1001}
	note := "B-tree model (capacity 4); Session.output stubbed; mutexes no-ops; the graceful-close wait is unrolled in full (1000 x 1 ms)"
	reg("C03",
		HarnessDef{ID: "H3.3", Spec: HarnessSpec{Name: "vH_C03_udp_close_order", Pkg: "pkg/protocol", LoopBound: 8, LoopBounds: lb, TimeoutS: 240, Par: 4, Redirects: sess},
			What:   "UDP: real Session.input of the peer's close request (sequence number c = number of segments the peer sent before closing) from an arbitrary receive state (nextRecv <= c, possibly a segment buffered ahead of a gap), then Session.Read: a clean io.EOF is observed only if every segment below c was delivered first. Outside the region of known finding C03-i (close request input while segments below c are missing), which is isolated in H3.3k",
			Bounds: "c within 8 of nextRecv, <= 1 buffered segment", Outside: note},
		HarnessDef{ID: "H3.3k", KnownFinding: "C03-i", Spec: HarnessSpec{Name: "vH_C03_udp_close_overtakes_data", Pkg: "pkg/protocol", LoopBound: 8, LoopBounds: lb, TimeoutS: 240, Par: 4, Redirects: sess},
			What:   "the region of known finding C03-i alone: the close request is input while segments below its sequence number are still missing (it overtook them, or they were lost and not yet retransmitted)",
			Bounds: "as H3.3", Outside: note},
	)
}

func init() {
	reg("C12", HarnessDef{ID: "H12.4k", KnownFinding: "C12-c2", Spec: HarnessSpec{Name: "vH_C12_udp_datagram_policy", Pkg: "pkg/socks5", LoopBound: 30, LoopBounds: map[string]int{"ReadAtLeast": 2}, TimeoutS: 120, Par: 2},
		What:   "known finding C12-c2: the per-datagram relay step of a UDP association (real parseUDPAssociateDatagram: header -> address the datagram is sent to) has no user or policy parameter, so a datagram addressed to a loopback / unspecified / private IPv4 address is accepted for relay for every user",
		Bounds: "IPv4 header, 2-byte payload", Outside: "the goroutines of RunUDPAssociateLoop (they call nothing between this step and WriteToUDP)"})
}

func init() {
	reg("C12", HarnessDef{ID: "H12.2", Spec: HarnessSpec{Name: "vH_C12_egress_rules", Pkg: "pkg/socks5", LoopBound: 30, LoopBounds: map[string]int{"ReadAtLeast": 2}, TimeoutS: 240, Par: 4},
		What:   "real FindAction / forwardToProxyAction / matchEgressRule with three rules over concrete, overlapping ranges (a /24 inside a /16 + another /24, then optionally '*') and SYMBOLIC actions (DIRECT / REJECT / PROXY), every IPv4 destination, a user with or without the permissions: local destinations are refused BEFORE any rule is consulted (a DIRECT or PROXY rule does not re-open them); otherwise the action is that of the FIRST matching rule, DIRECT if none matches",
		Bounds: "3 rules, IPv4 destinations, CIDR literals parsed natively", Outside: "domain-suffix rules; proxy selection among several proxy names"})
}

func init() {
	for _, d := range registry["C01"] {
		if d.ID == "H1.3" {
			d2 := d
			d2.ID = "H19.2"
			d2.What = "per-session accounting: every byte a server session hands to its application in one Session.Read - from the left-over buffer, from queued segments, in any split - is added exactly once to the session user's upload counter (= C01 H1.3 with a recording metric)"
			reg("C19", d2)
		}
	}
}

func init() {
	var base HarnessDef
	for _, d := range registry["C04"] {
		if d.ID == "H4.1" {
			base = d
		}
	}
	m := base
	m.ID, m.Spec.Name = "H4.1p", "vH_C04_tcp_prefix"
	m.What = "TCP prefix property over TWO genuine data segments A, B written by the real writeOneSegment: the real readOneSegment on an ARBITRARY 89-byte stream returns, if anything, A (same sequence number and payload) - never B first. The ideal cipher identifies (initial nonce N, k-th use) with (N+k, first use), as the real counter-mode nonce does. Outside the region of known finding C04-n (nonce bytes on the wire rewritten), which H4.1pk isolates"
	m.Bounds = "two segments of 1 byte, no padding"
	k := m
	k.ID, k.Spec.Name, k.KnownFinding = "H4.1pk", "vH_C04_tcp_prefix_nonce_rewrite", "C04-n"
	k.What = "the region of known finding C04-n alone: the 24 nonce bytes at the start of the stream differ from the genuine ones"
	reg("C04", m, k)
}

func init() {
	sess := map[string]string{
		"github.com/google/btree.NewG":                           "vTreeNew",
		"(*github.com/google/btree.BTreeG[T]).Len":               "vTreeLen",
		"(*github.com/google/btree.BTreeG[T]).ReplaceOrInsert":   "vTreeReplaceOrInsert",
		"(*github.com/google/btree.BTreeG[T]).Min":               "vTreeMin",
		"(*github.com/google/btree.BTreeG[T]).Max":               "vTreeMax",
		"(*github.com/google/btree.BTreeG[T]).DeleteMin":         "vTreeDeleteMin",
		"(*github.com/google/btree.BTreeG[T]).Clear":             "vTreeClear",
		"(*github.com/google/btree.BTreeG[T]).Ascend":            "vTreeAscend",
		"(*github.com/enfein/mieru/v3/pkg/protocol.Session).output": "vStubOutput",
		"github.com/enfein/mieru/v3/pkg/metrics.RegisterMetric":  "vStubRegisterMetric",
	}
	reg("C07", HarnessDef{ID: "H7.4", Spec: HarnessSpec{Name: "vH_C07_later_session_keeps_policy", Pkg: "pkg/protocol", LoopBound: 8, LoopBounds: map[string]int{"closeWithError": 1001}, TimeoutS: 120, Par: 2, IgnoreGo: true, Redirects: sess},
		What:   "real StreamUnderlay.onOpenSessionRequest for a LATER session of an already authenticated TCP connection (the segment carries no pending authentication): the session created carries the connection user's policy snapshot with the user's own quotas - attribution and quota hold for every session multiplexed on the connection, not only the first",
		Bounds: "one later session, any non-zero id, one quota with arbitrary allowance", Outside: "the session's input/output goroutines are not started (go statements skipped); B-tree model"})
}

func init() {
	reg("C14", HarnessDef{ID: "H14.4", Spec: HarnessSpec{Name: "vH_C14_mtu_plumbing", Pkg: "pkg/protocol", LoopBound: 8, TimeoutS: 60, Par: 2},
		What:   "MTU plumbing: NewUnderlayProperties and newBaseUnderlay report exactly the MTU they were configured with, for every supported value incl. the boundaries 1280 and 1500 (the fragment / padding arithmetic of H14.1 and the datagram bound of H14.2 are stated in terms of that number)",
		Bounds: "MTU 1280..1500, both transports", Outside: "how the CLI / appctl layers obtain the number from the configuration"})
}

func init() {
	r := map[string]string{
		"github.com/google/btree.NewG":                           "vTreeNew",
		"(*github.com/google/btree.BTreeG[T]).Len":               "vTreeLen",
		"(*github.com/google/btree.BTreeG[T]).ReplaceOrInsert":   "vTreeReplaceOrInsert",
		"(*github.com/google/btree.BTreeG[T]).Min":               "vTreeMin",
		"(*github.com/google/btree.BTreeG[T]).Max":               "vTreeMax",
		"(*github.com/google/btree.BTreeG[T]).DeleteMin":         "vTreeDeleteMin",
		"(*github.com/google/btree.BTreeG[T]).Clear":             "vTreeClear",
		"(*github.com/google/btree.BTreeG[T]).Ascend":            "vTreeAscend",
		"(*github.com/enfein/mieru/v3/pkg/protocol.Session).output": "vStubOutput",
		"github.com/enfein/mieru/v3/pkg/metrics.RegisterMetric":  "vStubRegisterMetric",
		"(*github.com/enfein/mieru/v3/pkg/replay.ReplayCache).IsDuplicate": "vStubIsDuplicateFirst",
		"(*github.com/enfein/mieru/v3/pkg/protocol.PacketUnderlay).serverTryDecryptMetadataForNewSession": "vStubNewSessionDiscovery",
	}
	reg("C06", HarnessDef{ID: "H6.2b", ReplayPatches: []SrcPatch{{File: "pkg/protocol/metadata.go", Old: "time.Now()", New: "vNow()", All: true}},
		Spec: HarnessSpec{Name: "vH_C06_packet_replay", Pkg: "pkg/protocol", LoopBound: 8, LoopBounds: map[string]int{"closeWithError": 1001, "readOneSegment": 2}, ClockMin: 1900000000, ClockMax: 1900000001, TimeoutS: 120, Par: 4, Redirects: r},
		What:   "real PacketUnderlay.readOneSegment at a UDP server without a session for the source: one 72-byte datagram that the replay cache reports (same bytes seen from another address) and that still decrypts as a new session - open request, data, ack or close request (type and lengths concrete per case, every other field arbitrary) - is dropped: nothing passed on, nothing sent, no session",
		Bounds: "4 segment types, metadata-only datagrams", Outside: "replay cache answer fixed to 'seen' (its own law is H6.1); discovery replaced by its outcome with scripted metadata; decrypt oracle"})
}

func init() {
	r := map[string]string{
		"github.com/google/btree.NewG":                           "vTreeNew",
		"(*github.com/google/btree.BTreeG[T]).Len":               "vTreeLen",
		"(*github.com/google/btree.BTreeG[T]).ReplaceOrInsert":   "vTreeReplaceOrInsert",
		"(*github.com/google/btree.BTreeG[T]).Min":               "vTreeMin",
		"(*github.com/google/btree.BTreeG[T]).Max":               "vTreeMax",
		"(*github.com/google/btree.BTreeG[T]).DeleteMin":         "vTreeDeleteMin",
		"(*github.com/google/btree.BTreeG[T]).Clear":             "vTreeClear",
		"(*github.com/google/btree.BTreeG[T]).Ascend":            "vTreeAscend",
		"(*github.com/enfein/mieru/v3/pkg/protocol.Session).output": "vStubOutput",
		"github.com/enfein/mieru/v3/pkg/metrics.RegisterMetric":  "vStubRegisterMetric",
		"io.ReadFull": "vStubReadFullLen",
		"(*github.com/enfein/mieru/v3/pkg/replay.ReplayCache).IsDuplicate": "vStubIsDuplicateAny",
		"github.com/enfein/mieru/v3/pkg/protocol.newPadding":                  "vStubNewPaddingAnyLen",
		"github.com/enfein/mieru/v3/pkg/protocol.buildRecommendedPaddingOpts": "vStubRecommendedOpts",
	}
	reg("C01", HarnessDef{ID: "H1.4", Tier: "thorough", ReplayPatches: []SrcPatch{{File: "pkg/protocol/metadata.go", Old: "time.Now()", New: "vNow()", All: true}},
		Spec: HarnessSpec{Name: "vH_C01_stray_segment_for_closed_session", Pkg: "pkg/protocol", LoopBound: 8, LoopBounds: map[string]int{"closeWithError": 1001, "ReadAtLeast": 3, "RunEventLoop": 3}, ClockMin: 1900000000, ClockMax: 1900000001, TimeoutS: 300, Par: 8, IgnoreGo: true, Redirects: r},
		What:   "demultiplexing on one TCP connection: the real StreamUnderlay.RunEventLoop (server) receives one more data segment for a session that is closed but still registered (scripted metadata: type, id and lengths concrete, the rest arbitrary), then the stream ends: the segment is dropped and the loop reads on - it ends with the stream (typed NETWORK error), not because of the stray segment, and nothing is written; sibling sessions on the connection are not torn down",
		Bounds: "one stray payload-less data segment, 3 loop iterations", Outside: "decrypt oracle with scripted first metadata; io.ReadFull length-only; padding contract stub; the clean-up ticker does not fire during the call; goroutines of sessions not started"})
}
