package main

var registry = map[string][]HarnessDef{}

func reg(prop string, defs ...HarnessDef) { registry[prop] = append(registry[prop], defs...) }

func init() {
	reg("C08",
		HarnessDef{ID: "H8.2a", Spec: HarnessSpec{Name: "vH_C08_ts_session", Pkg: "pkg/protocol", LoopBound: 8, TimeoutS: 120}, ReplayFn: "vR_C08_ts_session",
			What:   "sessionStruct.Unmarshal: accepted => |receiver minute - timestamp| <= 1; within one minute and well-formed => accepted; for every 32-byte metadata and every clock reading",
			Bounds: "clock 2020..2100 at nanosecond resolution, all 2^256 metadata byte strings", Outside: "clock steps backwards during the call"},
		HarnessDef{ID: "H8.2b", Spec: HarnessSpec{Name: "vH_C08_ts_dataack", Pkg: "pkg/protocol", LoopBound: 8, TimeoutS: 120}, ReplayFn: "vR_C08_ts_dataack",
			What:   "dataAckStruct.Unmarshal: same timestamp window for data/ack metadata (non low-entropy types for the accept direction)",
			Bounds: "clock 2020..2100, all metadata byte strings", Outside: "clock steps backwards during the call"},
		HarnessDef{ID: "H8.1a", Spec: HarnessSpec{Name: "vH_C08_slots", Pkg: "pkg/cipher", LoopBound: 8, TimeoutS: 120, Solver: "cvc5-int"},
			What:   "saltFromTime/cipherKeyEpoch slot arithmetic: |skew|<=60 s => sender slot among the receiver's three; |skew|>=240 s => not; slots are consecutive multiples of 120 s nearest to the instant",
			Bounds: "all instants 1970+10min..2^35 s at ns resolution, skew |d| <= 1000 s", Outside: "instants beyond year 3058"},
		HarnessDef{ID: "H8.1b", Spec: HarnessSpec{Name: "vH_C08_key_agreement", Pkg: "pkg/cipher", LoopBound: 40, TimeoutS: 240, Solver: "cvc5-int", Par: 2},
			What:   "newBlockCipherList (real saltFromTime + PBKDF2 call + cipher construction): for |skew| <= 60 s the key a sender encrypts with equals one of the three keys the receiver derives, in both directions",
			Bounds: "32-byte password, all instants/skews as above; SHA-256 and PBKDF2 uninterpreted", Outside: "hash collisions"},
	)
	reg("C17",
		HarnessDef{ID: "H17.1a", Spec: HarnessSpec{Name: "vH_C17_pdepGeneric_rec", Pkg: "pkg/mathext", LoopBound: 64, TimeoutS: 240},
			What:   "pdepGeneric satisfies the PDEP recursion on the lowest mask bit for all 2^128 (x,mask); its loop needs <= 64 iterations",
			Bounds: "full 64-bit width, unwind 64 (unwinding assertion proved)", Outside: "equality with the SDM definition follows by a paper induction on popcount(mask)"},
	)
}
