package main

import (
	"encoding/json"
	"fmt"
	"os"
	"path/filepath"
	"sort"
	"strconv"
	"strings"
	"sync"
	"sync/atomic"
	"time"

	"golang.org/x/tools/go/packages"
	"golang.org/x/tools/go/ssa"
	"golang.org/x/tools/go/ssa/ssautil"
)

// repoRoot is /repo; VERIF_REPO overrides it only for evaluating seeded
// changes in a scratch worktree (registered checks always run on /repo).
var repoRoot = func() string {
	if v := os.Getenv("VERIF_REPO"); v != "" {
		return v
	}
	return "/repo"
}()
const modPath = "github.com/enfein/mieru/v3"

var verifRoot = func() string {
	if v := os.Getenv("VERIF_ROOT"); v != "" {
		return v
	}
	exe, err := os.Executable()
	if err == nil {
		d := filepath.Dir(filepath.Dir(exe))
		if _, err := os.Stat(filepath.Join(d, "harness")); err == nil {
			return d
		}
	}
	return "/verif"
}()

type ObResult struct {
	Label     string            `json:"label"`
	Kind      string            `json:"kind"`
	Pos       string            `json:"pos,omitempty"`
	Fn        string            `json:"fn,omitempty"`
	Verdict   string            `json:"verdict"`
	TimeS     float64           `json:"time_s"`
	Reachable string            `json:"site_reachable,omitempty"`
	Model     map[string]string `json:"model,omitempty"`
}

type HarnessResult struct {
	Name      string         `json:"name"`
	Pkg       string         `json:"pkg"`
	Status    string         `json:"status"` // ok | violation | inconclusive | unsupported
	Error     string         `json:"error,omitempty"`
	Obs       []ObResult     `json:"obligations"`
	Functions map[string]int `json:"functions_encoded"`
	Stubs     map[string]int `json:"stubs"`
	Notes     []string       `json:"notes"`
	Unwind    map[string]int `json:"unwinding"`
	NAssume   int            `json:"assumptions"`
	Queries   int            `json:"queries"`
	SolverS   float64        `json:"solver_time_s"`
	ExecS     float64        `json:"encode_time_s"`
	LoadS     float64        `json:"load_time_s"`
	Solver    string         `json:"solver"`
	Steps     int            `json:"ssa_instructions_executed"`
	Nodes     int            `json:"term_nodes"`
	Nondets   []string       `json:"nondet_inputs"`
	LoopBound int            `json:"loop_bound"`
	Folded    map[string]int `json:"asserts_decided_by_simplifier"`
}

// overlayFor maps harness files of /verif/harness/<rel>/ into /repo/<rel>/.
func overlayFor(pkgRel string, extra ...string) (map[string][]byte, string, error) {
	ov, name, err := overlayFor1(pkgRel)
	if err != nil {
		return nil, "", err
	}
	// every other package that has harness files is overlaid as well: harnesses
	// of one package may use exported helpers that live in the overlay of
	// another (e.g. serveruser.VNewAuthentication)
	root := filepath.Join(verifRoot, "harness")
	filepath.Walk(root, func(path string, info os.FileInfo, werr error) error {
		if werr != nil || !info.IsDir() {
			return nil
		}
		rel, rerr := filepath.Rel(root, path)
		if rerr != nil || rel == "." || rel == pkgRel {
			return nil
		}
		ents, _ := os.ReadDir(path)
		has := false
		for _, en := range ents {
			if strings.HasSuffix(en.Name(), ".go") {
				has = true
			}
		}
		if !has {
			return nil
		}
		if ox, _, err := overlayFor1(rel); err == nil {
			for k, v := range ox {
				ov[k] = v
			}
		}
		return nil
	})
	return ov, name, nil
}

func overlayFor1(pkgRel string) (map[string][]byte, string, error) {
	ov := map[string][]byte{}
	dir := filepath.Join(verifRoot, "harness", pkgRel)
	ents, err := os.ReadDir(dir)
	if err != nil {
		return nil, "", err
	}
	pkgName := ""
	for _, en := range ents {
		if !strings.HasSuffix(en.Name(), ".go") || strings.HasSuffix(en.Name(), "_test.go") {
			continue
		}
		b, err := os.ReadFile(filepath.Join(dir, en.Name()))
		if err != nil {
			return nil, "", err
		}
		ov[filepath.Join(repoRoot, pkgRel, en.Name())] = b
		if pkgName == "" {
			for _, ln := range strings.Split(string(b), "\n") {
				if strings.HasPrefix(ln, "package ") {
					pkgName = strings.TrimSpace(strings.TrimPrefix(ln, "package "))
					break
				}
			}
		}
	}
	pre, err := os.ReadFile(filepath.Join(verifRoot, "harness", "prelude.go.txt"))
	if err != nil {
		return nil, "", err
	}
	ov[filepath.Join(repoRoot, pkgRel, "zz_verif_prelude.go")] = []byte(strings.Replace(string(pre), "package PKG", "package "+pkgName, 1))
	return ov, pkgName, nil
}

func loadProgram(pkgRel string, extra ...string) (*ssa.Program, *ssa.Package, error) {
	ov, _, err := overlayFor(pkgRel, extra...)
	if err != nil {
		return nil, nil, err
	}
	cfg := &packages.Config{
		Mode: packages.NeedName | packages.NeedFiles | packages.NeedCompiledGoFiles | packages.NeedImports |
			packages.NeedDeps | packages.NeedTypes | packages.NeedSyntax | packages.NeedTypesInfo | packages.NeedTypesSizes,
		Dir:     repoRoot,
		Overlay: ov,
		Env:     append(os.Environ(), "GOFLAGS=-mod=mod", "GOPROXY=off", "GOSUMDB=off", "GOTOOLCHAIN=local", "CGO_ENABLED=0"),
	}
	pkgs, err := packages.Load(cfg, "./"+pkgRel)
	if err != nil {
		return nil, nil, err
	}
	var errs []string
	packages.Visit(pkgs, nil, func(p *packages.Package) {
		for _, e := range p.Errors {
			errs = append(errs, e.Error())
		}
	})
	if len(errs) > 0 {
		if len(errs) > 8 {
			errs = errs[:8]
		}
		return nil, nil, fmt.Errorf("harness does not compile against this tree: %s", strings.Join(errs, "; "))
	}
	prog, spkgs := ssautil.AllPackages(pkgs, ssa.InstantiateGenerics)
	prog.Build()
	if len(spkgs) == 0 || spkgs[0] == nil {
		return nil, nil, fmt.Errorf("no SSA package for %s", pkgRel)
	}
	return prog, spkgs[0], nil
}

func runHarness(spec *HarnessSpec) (res *HarnessResult) {
	res = &HarnessResult{Name: spec.Name, Pkg: spec.Pkg, Solver: spec.Solver, LoopBound: spec.LoopBound}
	t0 := time.Now()
	prog, pkg, err := loadProgram(spec.Pkg, spec.ExtraPkgs...)
	res.LoadS = time.Since(t0).Seconds()
	if err != nil {
		res.Status, res.Error = "unsupported", err.Error()
		return
	}
	fn := pkg.Func(spec.Name)
	if fn == nil {
		res.Status, res.Error = "unsupported", "harness function not found: "+spec.Name
		return
	}
	e := NewEngine(prog, pkg, spec)
	t1 := time.Now()
	func() {
		defer func() {
			if r := recover(); r != nil {
				if u, ok := r.(unsupportedErr); ok {
					res.Status, res.Error = "unsupported", u.Error()
					return
				}
				res.Status = "unsupported"
				res.Error = fmt.Sprintf("engine panic: %v", r)
				if os.Getenv("GOSMT_DEBUG") != "" {
					panic(r)
				}
			}
		}()
		if spec.RunInit {
			e.runInit(pkg)
		} else {
			e.initDone[pkg] = false
		}
		e.callFn(nil, fn, nil, nil, tTrue)
		// the end of the harness must be reachable (vacuity witness)
		e.oblige("reach", "harness end reachable", tTrue, fn.Pos(), fn.String())
	}()
	res.ExecS = time.Since(t1).Seconds()
	if os.Getenv("GOSMT_VERBOSE") != "" {
		if os.Getenv("GOSMT_DEBUGOBS") != "" {
			for i, ob := range e.obligations {
				if i < 40 {
					fmt.Fprintf(os.Stderr, "[ob %d] %s %s @%s\n    %s\n", i, ob.Kind, ob.Label, ob.Pos, debugStr(ob.Cond, 6))
				}
			}
		}
		hist := map[string]int{}
		for _, ob := range e.obligations {
			hist[ob.Kind+": "+ob.Label+" @"+ob.Pos]++
		}
		for k, v := range hist {
			if v > 20 {
				fmt.Fprintf(os.Stderr, "[obligations] %d x %s\n", v, k)
			}
		}
		fmt.Fprintf(os.Stderr, "[encode] %.1fs load %.1fs obligations=%d assumptions=%d steps=%d status=%s %s\n", res.ExecS, res.LoadS, len(e.obligations), len(e.assumptions), e.steps, res.Status, res.Error)
	}
	res.Functions, res.Stubs, res.Unwind = e.callLog, e.stubLog, e.maxUnwind
	for n := range e.notes {
		res.Notes = append(res.Notes, n)
	}
	sort.Strings(res.Notes)
	res.NAssume = len(e.assumptions)
	res.Folded = e.folded
	res.Steps = e.steps
	for _, nd := range e.nondets {
		res.Nondets = append(res.Nondets, nd.Name)
	}
	if res.Status == "unsupported" {
		return
	}
	e.solve(res)
	return
}

var dumpN int

func rawAndAll(ts []*Term) *Term {
	r := tTrue
	for _, t := range ts {
		r = rawAnd(r, t)
	}
	return r
}

// group queries: size of the initial groups of side obligations and the time
// allowed before a group is split in halves
var groupSize = envInt("GOSMT_GROUP", 32)
var groupTimeout = time.Duration(envInt("GOSMT_GROUPTO", 10)) * time.Second

func envInt(name string, def int) int {
	if v, err := strconv.Atoi(os.Getenv(name)); err == nil && v > 0 {
		return v
	}
	return def
}

func (e *Engine) solve(res *HarnessResult) {
	spec := e.spec
	timeout := time.Duration(spec.TimeoutS) * time.Second
	if timeout == 0 {
		timeout = 60 * time.Second
	}
	solverName := spec.Solver
	if solverName == "" {
		solverName = "z3-new"
	}
	res.Solver = solverName
	var logw *os.File
	if p := os.Getenv("GOSMT_SMTLOG"); p != "" {
		logw, _ = os.Create(p)
		defer logw.Close()
	}
	start := func() (*Solver, *Printer, int) {
		var s *Solver
		var err error
		if logw != nil {
			s, err = StartSolver(solverName, logw, timeout)
		} else {
			s, err = StartSolver(solverName, nil, timeout)
		}
		if err != nil {
			panic(err)
		}
		return s, NewPrinter(), 0
	}
	par := spec.Par
	if par <= 0 {
		par = 1
	}
	var mu sync.Mutex
	totalT := time.Duration(0)
	totalQ := 0
	isCVC := strings.HasPrefix(solverName, "cvc5")
	// A worker owns one solver process with a persistent context: term
	// definitions and the assumption prefix are sent once and only grow;
	// each obligation is push / assert / check / pop.  z3 is asked through
	// (check-sat-using qfaufbv) so that it bit-blasts instead of using its
	// slower incremental core (measured: 2-5 s vs > 20 s on the PDEP lemma).
	// variable supports for the cone-of-influence reduction (computed once)
	sc := newSupportCalc()
	var scMu sync.Mutex
	assumeSupp := make([]bitset, len(e.assumptions))
	for k, a := range e.assumptions {
		assumeSupp[k] = sc.support(a)
	}
	suppOf := func(t *Term) bitset {
		scMu.Lock()
		defer scMu.Unlock()
		return sc.support(t)
	}
	type sctx struct {
		s         *Solver
		pr        *Printer
		nAsserted int
	}
	type worker struct{ c [2]sctx } // 0: real assumptions only, 1: full prefix
	pool := make(chan *worker, par)
	for i := 0; i < par; i++ {
		pool <- &worker{}
	}
	account := func(s *Solver) {
		mu.Lock()
		totalT += s.Time
		totalQ += s.Querys
		s.Time, s.Querys = 0, 0
		mu.Unlock()
	}
	// runIn decides (assumptions[0:nassume] filtered by mode) AND cond in context c.
	runIn := func(c *sctx, mode int, nassume int, cond *Term, fresh bool, t0 time.Time, noCOI bool) (string, map[string]string, bool) {
		oneShot := true // self-contained script after (reset): z3 then uses its tactic solver, cvc5 its non-incremental preprocessing
		if c.s == nil || c.s.dead || (isCVC && (fresh || nassume < c.nAsserted)) {
			if c.s != nil {
				account(c.s)
				c.s.Kill()
			}
			c.s, _, _ = start()
			c.pr = NewPrinter()
			c.nAsserted = 0
		}
		s := c.s
		var sb strings.Builder
		if oneShot {
			c.pr = NewPrinter()
			c.nAsserted = 0
			if isCVC {
				sb.WriteString("(reset)\n(set-logic ALL)\n")
			} else {
				sb.WriteString("(reset)\n(set-option :produce-models true)\n")
			}
		}
		// cone of influence: only assumptions that (transitively) share a
		// variable or uninterpreted symbol with the condition can matter; the
		// rest is satisfiable on its own because the vacuity witness of the
		// harness (all assumptions together) is required to be sat.
		var include []bool
		if !spec.NoCOI && !noCOI {
			include = make([]bool, nassume)
			cur := append(bitset{}, suppOf(cond)...)
			for changed := true; changed; {
				changed = false
				for k := 0; k < nassume; k++ {
					if include[k] || (mode == 0 && e.isFact[k]) {
						continue
					}
					if sk := assumeSupp[k]; len(sk) == 0 || sk.intersects(cur) {
						include[k] = true
						cur = cur.or(sk)
						changed = true
					}
				}
			}
		}
		for ; c.nAsserted < nassume; c.nAsserted++ {
			if mode == 0 && e.isFact[c.nAsserted] {
				continue
			}
			if include != nil && !include[c.nAsserted] {
				continue
			}
			a := e.assumptions[c.nAsserted]
			c.pr.Define(a)
			sb.WriteString(c.pr.Flush())
			fmt.Fprintf(&sb, "(assert %s)\n", c.pr.ref(a))
		}
		c.pr.Define(cond)
		sb.WriteString(c.pr.Flush())
		if oneShot {
			fmt.Fprintf(&sb, "(assert %s)\n", c.pr.ref(cond))
		} else {
			fmt.Fprintf(&sb, "(push 1)\n(assert %s)\n", c.pr.ref(cond))
		}
		if dd := os.Getenv("GOSMT_DUMPDIR"); dd != "" {
			mu.Lock()
			dumpN++
			os.WriteFile(filepath.Join(dd, fmt.Sprintf("q%03d.smt2", dumpN)), []byte(strings.Replace(sb.String(), "(reset)\n", "", 1)+"(check-sat)\n"), 0o644)
			mu.Unlock()
		}
		if err := s.Exec(sb.String()); err != nil {
			s.Kill()
			return "error: " + err.Error(), nil, false
		}
		to := timeout
		if fresh && to > groupTimeout {
			to = groupTimeout // group queries are an optimisation: give up early, split
		}
		if mode == 0 && !fresh {
			// the facts-free attempt is an optimisation too
			if to = timeout / 4; to > 20*time.Second {
				to = 20 * time.Second
			}
			if to < 3*time.Second {
				to = 3 * time.Second
			}
		}
		v := s.CheckSatCmd("(check-sat)\n", to)
		var model map[string]string
		if v == "sat" {
			model = e.readModel(s, c.pr)
		}
		if !s.dead && !oneShot {
			if err := s.Exec("(pop 1)\n"); err != nil {
				s.Kill()
			}
			if fresh {
				account(s)
				s.Kill()
			}
		}
		account(s)
		return v, model, true
	}
	// query decides prefix(nassume) AND cond.  fresh=true uses a brand-new
	// context (group formulas carry their own prefixes).  Otherwise a first
	// attempt leaves out the facts (already-discharged earlier obligations);
	// only `unsat` is believed from it, anything else is re-decided with the
	// full prefix.
	query := func(nassume int, cond *Term, fresh bool, reach bool) (string, map[string]string, float64) {
		w := <-pool
		defer func() { pool <- w }()
		t0 := time.Now()
		if !fresh && !spec.NoLightPass {
			v, _, ok := runIn(&w.c[0], 0, nassume, cond, false, t0, false)
			// a vacuity witness only needs the real assumptions to be satisfiable:
			// facts follow from them once every obligation is discharged
			if ok && (v == "unsat" || (reach && v == "sat")) {
				if os.Getenv("GOSMT_VERBOSE") != "" {
					fmt.Fprintf(os.Stderr, "[query] light nassume=%d nodes=%d verdict=%s t=%.1fs\n", nassume, termSize(cond), v, time.Since(t0).Seconds())
				}
				return v, nil, time.Since(t0).Seconds()
			}
		}
		t1 := time.Now()
		v, model, ok := runIn(&w.c[1], 1, nassume, cond, fresh, t1, false)
		if !ok {
			v, model, _ = runIn(&w.c[1], 1, nassume, cond, fresh, t1, false) // solver died while loading: one retry
		}
		if v == "sat" && !fresh && !reach && !spec.NoCOI {
			// counterexample: ask again with EVERY assumption so that the model
			// also assigns the inputs outside the cone of influence (the native
			// replay needs a complete vector)
			if v2, m2, ok2 := runIn(&w.c[1], 1, nassume, cond, false, time.Now(), true); ok2 && v2 == "sat" {
				model = m2
			}
		}
		if os.Getenv("GOSMT_VERBOSE") != "" {
			fmt.Fprintf(os.Stderr, "[query] full nassume=%d nodes=%d verdict=%s t=%.1fs\n", nassume, termSize(cond), v, time.Since(t0).Seconds())
		}
		return v, model, time.Since(t0).Seconds()
	}
	defer func() {
		close(pool)
		for w := range pool {
			for i := range w.c {
				if w.c[i].s != nil {
					w.c[i].s.Close()
				}
			}
		}
	}()

	var conds []*Term
	for _, ob := range e.obligations {
		conds = append(conds, ob.Cond)
	}
	res.Nodes = termSize(append(conds, e.assumptions...)...)

	// prefix conjunctions P_k = a_0 AND ... AND a_{k-1}, built without flattening
	// (group queries use the real assumptions only: unsat without the facts
	// is unsat with them; anything else is split and re-decided)
	prefix := make([]*Term, len(e.assumptions)+1)
	prefix[0] = tTrue
	for k, a := range e.assumptions {
		if e.isFact[k] {
			prefix[k+1] = prefix[k]
		} else {
			prefix[k+1] = rawAnd(prefix[k], a)
		}
	}
	groupOf := func(obs []*Obligation) *Term {
		var group []*Term
		for _, ob := range obs {
			group = append(group, rawAnd(prefix[ob.NAssume], ob.Cond))
		}
		return rawOr(group)
	}
	var side, asserts []*Obligation
	for _, ob := range e.obligations {
		switch ob.Kind {
		case "reach":
		case "assert":
			asserts = append(asserts, ob)
		default:
			side = append(side, ob)
		}
	}
	results := make([]ObResult, len(e.obligations))
	index := map[*Obligation]int{}
	for i, ob := range e.obligations {
		index[ob] = i
		results[i] = ObResult{Label: ob.Label, Kind: ob.Kind, Pos: ob.Pos, Fn: ob.Fn}
	}
	var wg sync.WaitGroup
	var pending []*Obligation
	var pmu sync.Mutex
	single := func(ob *Obligation) { // deferred: singles run in assumption order (phase 2)
		pmu.Lock()
		pending = append(pending, ob)
		pmu.Unlock()
	}
	// group: one query for OR_i (prefix_i AND cond_i); on anything but unsat,
	// split in halves (so a single hard or failing obligation is isolated in
	// O(log n) extra queries) down to individual queries.
	var groupRun func(obs []*Obligation, depth int)
	var groupFail, groupOK int32
	groupRun = func(obs []*Obligation, depth int) {
		if len(obs) <= 2 {
			for _, ob := range obs {
				single(ob)
			}
			return
		}
		if depth == 0 && len(obs) > groupSize+groupSize/2 {
			// big harness: groups of groupSize consecutive obligations.  The
			// first group is a probe: group formulas carry their whole
			// assumption prefix (no cone-of-influence reduction), which for
			// harnesses with thousands of assumptions is slower than deciding
			// the members one by one - then grouping is abandoned altogether.
			probeEnd := groupSize
			groupRun(obs[:probeEnd], 1)
			wg.Wait()
			if atomic.LoadInt32(&groupOK) == 0 {
				for _, ob := range obs[probeEnd:] {
					single(ob)
				}
				return
			}
			for i := probeEnd; i < len(obs); i += groupSize {
				j := i + groupSize
				if j > len(obs) {
					j = len(obs)
				}
				groupRun(obs[i:j], 1)
			}
			return
		}
		wg.Add(1)
		go func() {
			defer wg.Done()
			if atomic.LoadInt32(&groupFail) >= 3 && atomic.LoadInt32(&groupOK) == 0 {
				for _, ob := range obs {
					single(ob)
				}
				return
			}
			v, _, t := query(0, groupOf(obs), true, false)
			if v == "unsat" {
				atomic.AddInt32(&groupOK, 1)
				for _, ob := range obs {
					results[index[ob]].Verdict = "unsat"
					results[index[ob]].TimeS = t / float64(len(obs))
				}
				return
			}
			atomic.AddInt32(&groupFail, 1)
			if os.Getenv("GOSMT_VERBOSE") != "" {
				fmt.Fprintf(os.Stderr, "[group] size=%d depth=%d verdict=%s t=%.1fs -> singles\n", len(obs), depth, v, t)
			}
			for _, ob := range obs {
				single(ob)
			}
		}()
	}
	groupRun(side, 0)
	if spec.GroupAsserts {
		groupRun(asserts, 0)
	} else {
		for _, ob := range asserts {
			single(ob)
		}
	}
	for _, ob := range e.obligations {
		if ob.Kind == "reach" {
			single(ob)
		}
	}
	wg.Wait() // phase 1: group queries (each in a fresh context)
	sort.SliceStable(pending, func(i, j int) bool { return pending[i].NAssume < pending[j].NAssume })
	tasks := make(chan *Obligation, len(pending))
	for _, ob := range pending {
		tasks <- ob
	}
	close(tasks)
	for i := 0; i < par; i++ {
		wg.Add(1)
		go func() {
			defer wg.Done()
			for ob := range tasks {
				v, m, t := query(ob.NAssume, ob.Cond, false, ob.Kind == "reach")
				r := &results[index[ob]]
				r.Verdict, r.TimeS, r.Model = v, t, m
			}
		}()
	}
	wg.Wait()
	// Vacuity, second half.  The witness above was decided inside the cone of
	// influence of the harness end.  The reduction is only sound if the
	// assumptions OUTSIDE that cone are satisfiable too; they fall into
	// variable-disjoint components, each of which is checked on its own (a
	// contradictory side assumption such as vAssume(0 <= i && i < 0) is one).
	{
		n := len(e.assumptions)
		seen := make([]bool, n)
		mark := func(seed bitset) []int {
			var comp []int
			cur := append(bitset{}, seed...)
			for changed := true; changed; {
				changed = false
				for k := 0; k < n; k++ {
					if seen[k] || e.isFact[k] {
						continue
					}
					if sk := assumeSupp[k]; len(sk) != 0 && sk.intersects(cur) {
						seen[k] = true
						comp = append(comp, k)
						cur = cur.or(sk)
						changed = true
					}
				}
			}
			return comp
		}
		for _, ob := range e.obligations {
			if ob.Kind == "reach" {
				mark(suppOf(ob.Cond))
			}
		}
		bad := ""
		ncomp, undecided := 0, 0
		for k := 0; k < n && bad == ""; k++ {
			if seen[k] || e.isFact[k] || len(assumeSupp[k]) == 0 {
				continue
			}
			seen[k] = true
			comp := append([]int{k}, mark(assumeSupp[k])...)
			var cs []*Term
			for _, j := range comp {
				cs = append(cs, e.assumptions[j])
			}
			ncomp++
			v, _, _ := query(0, rawAndAll(cs), true, true)
			if v == "unsat" {
				bad = fmt.Sprintf("side assumptions (component of %d, first: assumption #%d) are %s", len(comp), k, v)
			} else if v != "sat" {
				// guarded assumptions deep inside a harness embed the whole path
				// condition; an undecided component is recorded, not failed:
				// this pass is a safety net against contradictory assumptions
				undecided++
			}
		}
		if os.Getenv("GOSMT_VERBOSE") != "" {
			fmt.Fprintf(os.Stderr, "[vacuity] %d side components checked, %d undecided %s\n", ncomp, undecided, bad)
		}
		if undecided > 0 {
			res.Notes = append(res.Notes, fmt.Sprintf("vacuity: %d of %d side-assumption components were not decided within the cap (none was unsatisfiable)", undecided, ncomp))
		}
		if bad != "" {
			for i, ob := range e.obligations {
				if ob.Kind == "reach" && results[i].Verdict == "sat" {
					if strings.Contains(bad, "unsat") {
						results[i].Verdict = "unsat"
					} else {
						results[i].Verdict = "unknown (" + bad + ")"
					}
				}
			}
		}
	}
	status := "ok"
	for i, ob := range e.obligations {
		r := &results[i]
		switch {
		case ob.Kind == "reach":
			if r.Verdict == "unsat" {
				r.Verdict = "unsat (VACUOUS: not reachable)"
			}
			if r.Verdict != "sat" && status == "ok" {
				status = "inconclusive"
			}
			r.Model = nil
		case r.Verdict == "sat":
			status = "violation"
		case r.Verdict != "unsat" && status == "ok":
			status = "inconclusive"
		}
	}
	res.Obs = results
	res.Queries = totalQ
	res.SolverS = totalT.Seconds()
	res.Status = status
}

func (e *Engine) readModel(s *Solver, pr *Printer) map[string]string {
	var exprs, keys []string
	for _, nd := range e.nondets {
		if !pr.defined[nd.T.id] {
			continue // not part of any asserted formula so far
		}
		switch nd.Kind {
		case "bytes":
			for i := 0; i < nd.Len; i++ {
				exprs = append(exprs, fmt.Sprintf("(select %s #x%016x)", smtSym(nd.Name), i))
				keys = append(keys, fmt.Sprintf("%s[%d]", nd.Name, i))
			}
		default:
			exprs = append(exprs, smtSym(nd.Name))
			keys = append(keys, nd.Name)
		}
	}
	// path guards: which of the drawn values lie on the model's path
	guardKey := map[string]int{}
	for i, nd := range e.nondets {
		if nd.G == nil || nd.G.IsTrue() || !pr.defined[nd.T.id] {
			continue
		}
		if nd.G.IsConst() {
			continue
		}
		if !pr.defined[nd.G.id] {
			continue // guard mentions terms outside the query: treat as on-path
		}
		guardKey[nd.Name] = len(exprs)
		exprs = append(exprs, pr.ref(nd.G))
		keys = append(keys, fmt.Sprintf("guard#%d", i))
	}
	vals, err := s.GetValues(exprs)
	m := map[string]string{}
	if err != nil {
		m["_error"] = err.Error()
		return m
	}
	// collapse byte arrays into hex strings
	bytesOf := map[string][]byte{}
	for i, k := range keys {
		if strings.HasPrefix(k, "guard#") {
			continue
		}
		if j := strings.IndexByte(k, '['); j >= 0 {
			v, _ := parseBV(vals[i])
			bytesOf[k[:j]] = append(bytesOf[k[:j]], byte(v))
			continue
		}
		v, ok := parseBV(vals[i])
		if ok {
			m[k] = fmt.Sprintf("%d", v)
		} else {
			m[k] = vals[i]
		}
	}
	for k, b := range bytesOf {
		m[k] = fmt.Sprintf("hex:%x", b)
	}
	// path-ordered view: the k-th value of a tag that the NATIVE run draws is the
	// k-th one whose guard is true in the model ("path.<tag>.<k>")
	pathIdx := map[string]int{}
	for _, nd := range e.nondets {
		onPath := true
		if gi, ok := guardKey[nd.Name]; ok {
			onPath = strings.TrimSpace(vals[gi]) == "true"
		} else if nd.G != nil && nd.G.IsFalse() {
			onPath = false
		}
		if !onPath {
			continue
		}
		k := pathIdx[nd.Tag]
		pathIdx[nd.Tag] = k + 1
		if v, ok := m[nd.Name]; ok {
			m[fmt.Sprintf("path.%s.%d", nd.Tag, k)] = v
		}
	}
	return m
}

func writeJSON(path string, v interface{}) error {
	b, err := json.MarshalIndent(v, "", " ")
	if err != nil {
		return err
	}
	return os.WriteFile(path, append(b, '\n'), 0o644)
}
