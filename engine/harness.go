package main

import (
	"encoding/json"
	"fmt"
	"os"
	"path/filepath"
	"sort"
	"strings"
	"sync"
	"time"

	"golang.org/x/tools/go/packages"
	"golang.org/x/tools/go/ssa"
	"golang.org/x/tools/go/ssa/ssautil"
)

const repoRoot = "/repo"
const modPath = "github.com/enfein/mieru/v3"

var verifRoot = func() string {
	if v := os.Getenv("VERIF_ROOT"); v != "" {
		return v
	}
	exe, err := os.Executable()
	if err == nil {
		d := filepath.Dir(filepath.Dir(exe))
		if _, err := os.Stat(filepath.Join(d, "harness")); err == nil {
			return d
		}
	}
	return "/verif"
}()

type ObResult struct {
	Label     string            `json:"label"`
	Kind      string            `json:"kind"`
	Pos       string            `json:"pos,omitempty"`
	Fn        string            `json:"fn,omitempty"`
	Verdict   string            `json:"verdict"`
	TimeS     float64           `json:"time_s"`
	Reachable string            `json:"site_reachable,omitempty"`
	Model     map[string]string `json:"model,omitempty"`
}

type HarnessResult struct {
	Name      string         `json:"name"`
	Pkg       string         `json:"pkg"`
	Status    string         `json:"status"` // ok | violation | inconclusive | unsupported
	Error     string         `json:"error,omitempty"`
	Obs       []ObResult     `json:"obligations"`
	Functions map[string]int `json:"functions_encoded"`
	Stubs     map[string]int `json:"stubs"`
	Notes     []string       `json:"notes"`
	Unwind    map[string]int `json:"unwinding"`
	NAssume   int            `json:"assumptions"`
	Queries   int            `json:"queries"`
	SolverS   float64        `json:"solver_time_s"`
	ExecS     float64        `json:"encode_time_s"`
	LoadS     float64        `json:"load_time_s"`
	Solver    string         `json:"solver"`
	Steps     int            `json:"ssa_instructions_executed"`
	Nodes     int            `json:"term_nodes"`
	Nondets   []string       `json:"nondet_inputs"`
	LoopBound int            `json:"loop_bound"`
}

// overlayFor maps harness files of /verif/harness/<rel>/ into /repo/<rel>/.
func overlayFor(pkgRel string) (map[string][]byte, string, error) {
	ov := map[string][]byte{}
	dir := filepath.Join(verifRoot, "harness", pkgRel)
	ents, err := os.ReadDir(dir)
	if err != nil {
		return nil, "", err
	}
	pkgName := ""
	for _, en := range ents {
		if !strings.HasSuffix(en.Name(), ".go") || strings.HasSuffix(en.Name(), "_test.go") {
			continue
		}
		b, err := os.ReadFile(filepath.Join(dir, en.Name()))
		if err != nil {
			return nil, "", err
		}
		ov[filepath.Join(repoRoot, pkgRel, en.Name())] = b
		if pkgName == "" {
			for _, ln := range strings.Split(string(b), "\n") {
				if strings.HasPrefix(ln, "package ") {
					pkgName = strings.TrimSpace(strings.TrimPrefix(ln, "package "))
					break
				}
			}
		}
	}
	pre, err := os.ReadFile(filepath.Join(verifRoot, "harness", "prelude.go.txt"))
	if err != nil {
		return nil, "", err
	}
	ov[filepath.Join(repoRoot, pkgRel, "zz_verif_prelude.go")] = []byte(strings.Replace(string(pre), "package PKG", "package "+pkgName, 1))
	return ov, pkgName, nil
}

func loadProgram(pkgRel string) (*ssa.Program, *ssa.Package, error) {
	ov, _, err := overlayFor(pkgRel)
	if err != nil {
		return nil, nil, err
	}
	cfg := &packages.Config{
		Mode: packages.NeedName | packages.NeedFiles | packages.NeedCompiledGoFiles | packages.NeedImports |
			packages.NeedDeps | packages.NeedTypes | packages.NeedSyntax | packages.NeedTypesInfo | packages.NeedTypesSizes,
		Dir:     repoRoot,
		Overlay: ov,
		Env:     append(os.Environ(), "GOFLAGS=-mod=mod", "GOPROXY=off", "GOSUMDB=off", "GOTOOLCHAIN=local", "CGO_ENABLED=0"),
	}
	pkgs, err := packages.Load(cfg, "./"+pkgRel)
	if err != nil {
		return nil, nil, err
	}
	var errs []string
	packages.Visit(pkgs, nil, func(p *packages.Package) {
		for _, e := range p.Errors {
			errs = append(errs, e.Error())
		}
	})
	if len(errs) > 0 {
		if len(errs) > 8 {
			errs = errs[:8]
		}
		return nil, nil, fmt.Errorf("harness does not compile against this tree: %s", strings.Join(errs, "; "))
	}
	prog, spkgs := ssautil.AllPackages(pkgs, ssa.InstantiateGenerics)
	prog.Build()
	if len(spkgs) == 0 || spkgs[0] == nil {
		return nil, nil, fmt.Errorf("no SSA package for %s", pkgRel)
	}
	return prog, spkgs[0], nil
}

func runHarness(spec *HarnessSpec) (res *HarnessResult) {
	res = &HarnessResult{Name: spec.Name, Pkg: spec.Pkg, Solver: spec.Solver, LoopBound: spec.LoopBound}
	t0 := time.Now()
	prog, pkg, err := loadProgram(spec.Pkg)
	res.LoadS = time.Since(t0).Seconds()
	if err != nil {
		res.Status, res.Error = "unsupported", err.Error()
		return
	}
	fn := pkg.Func(spec.Name)
	if fn == nil {
		res.Status, res.Error = "unsupported", "harness function not found: "+spec.Name
		return
	}
	e := NewEngine(prog, pkg, spec)
	t1 := time.Now()
	func() {
		defer func() {
			if r := recover(); r != nil {
				if u, ok := r.(unsupportedErr); ok {
					res.Status, res.Error = "unsupported", u.Error()
					return
				}
				res.Status = "unsupported"
				res.Error = fmt.Sprintf("engine panic: %v", r)
				if os.Getenv("GOSMT_DEBUG") != "" {
					panic(r)
				}
			}
		}()
		if spec.RunInit {
			e.runInit(pkg)
		} else {
			e.initDone[pkg] = false
		}
		e.callFn(nil, fn, nil, nil, tTrue)
		// the end of the harness must be reachable (vacuity witness)
		e.oblige("reach", "harness end reachable", tTrue, fn.Pos(), fn.String())
	}()
	res.ExecS = time.Since(t1).Seconds()
	res.Functions, res.Stubs, res.Unwind = e.callLog, e.stubLog, e.maxUnwind
	for n := range e.notes {
		res.Notes = append(res.Notes, n)
	}
	sort.Strings(res.Notes)
	res.NAssume = len(e.assumptions)
	res.Steps = e.steps
	for _, nd := range e.nondets {
		res.Nondets = append(res.Nondets, nd.Name)
	}
	if res.Status == "unsupported" {
		return
	}
	e.solve(res)
	return
}

var dumpN int

func (e *Engine) solve(res *HarnessResult) {
	spec := e.spec
	timeout := time.Duration(spec.TimeoutS) * time.Second
	if timeout == 0 {
		timeout = 60 * time.Second
	}
	solverName := spec.Solver
	if solverName == "" {
		solverName = "z3-new"
	}
	res.Solver = solverName
	var logw *os.File
	if p := os.Getenv("GOSMT_SMTLOG"); p != "" {
		logw, _ = os.Create(p)
		defer logw.Close()
	}
	start := func() (*Solver, *Printer, int) {
		var s *Solver
		var err error
		if logw != nil {
			s, err = StartSolver(solverName, logw, timeout)
		} else {
			s, err = StartSolver(solverName, nil, timeout)
		}
		if err != nil {
			panic(err)
		}
		return s, NewPrinter(), 0
	}
	par := spec.Par
	if par <= 0 {
		par = 1
	}
	var mu sync.Mutex
	totalT := time.Duration(0)
	totalQ := 0
	// Every query is a self-contained script after (reset): z3 then uses its
	// tactic-based solver (bit-blasting) instead of the slower incremental core.
	type worker struct{ s *Solver }
	pool := make(chan *worker, par)
	for i := 0; i < par; i++ {
		pool <- &worker{}
	}
	query := func(nassume int, cond *Term) (string, map[string]string, float64) {
		w := <-pool
		defer func() { pool <- w }()
		t0 := time.Now()
		if w.s == nil || w.s.dead {
			w.s, _, _ = start()
		}
		s := w.s
		pr := NewPrinter()
		var sb strings.Builder
		sb.WriteString("(reset)\n")
		if strings.HasPrefix(solverName, "cvc5") {
			sb.WriteString("(set-logic ALL)\n")
		} else {
			sb.WriteString("(set-option :produce-models true)\n")
		}
		for k := 0; k < nassume; k++ {
			a := e.assumptions[k]
			pr.Define(a)
			sb.WriteString(pr.Flush())
			fmt.Fprintf(&sb, "(assert %s)\n", pr.ref(a))
		}
		pr.Define(cond)
		sb.WriteString(pr.Flush())
		fmt.Fprintf(&sb, "(assert %s)\n", pr.ref(cond))
		if dd := os.Getenv("GOSMT_DUMPDIR"); dd != "" {
			mu.Lock()
			dumpN++
			os.WriteFile(filepath.Join(dd, fmt.Sprintf("q%03d.smt2", dumpN)), []byte(strings.Replace(sb.String(), "(reset)\n", "", 1)+"(check-sat)\n"), 0o644)
			mu.Unlock()
		}
		var v string
		var model map[string]string
		err := s.Exec(sb.String())
		if err != nil {
			// solver died (killed, out of memory): restart once and retry
			s.Kill()
			w.s, _, _ = start()
			s = w.s
			err = s.Exec(sb.String())
		}
		if err != nil {
			v = "error: " + err.Error()
		} else {
			v = s.CheckSat(timeout)
			if v == "sat" {
				model = e.readModel(s, pr)
			}
		}
		mu.Lock()
		totalT += s.Time
		totalQ += s.Querys
		s.Time, s.Querys = 0, 0
		mu.Unlock()
		return v, model, time.Since(t0).Seconds()
	}
	defer func() {
		close(pool)
		for w := range pool {
			if w.s != nil {
				w.s.Close()
			}
		}
	}()

	var conds []*Term
	for _, ob := range e.obligations {
		conds = append(conds, ob.Cond)
	}
	res.Nodes = termSize(append(conds, e.assumptions...)...)

	// 1. group query over the non-assert obligations (panic sites, unwinding
	// assertions, blocking): OR_i (prefix_i AND cond_i); asserts (and, if the
	// group is not unsat, everything) are queried individually in parallel.
	groupOf := func(obs []*Obligation) *Term {
		var group []*Term
		pre := tTrue
		k := 0
		for _, ob := range obs {
			for ; k < ob.NAssume; k++ {
				pre = And(pre, e.assumptions[k])
			}
			group = append(group, And(pre, ob.Cond))
		}
		return Or(group...)
	}
	var side, asserts []*Obligation
	for _, ob := range e.obligations {
		switch ob.Kind {
		case "reach":
		case "assert":
			asserts = append(asserts, ob)
		default:
			side = append(side, ob)
		}
	}
	results := make([]ObResult, len(e.obligations))
	index := map[*Obligation]int{}
	for i, ob := range e.obligations {
		index[ob] = i
		results[i] = ObResult{Label: ob.Label, Kind: ob.Kind, Pos: ob.Pos, Fn: ob.Fn}
	}
	var wg sync.WaitGroup
	single := func(ob *Obligation) {
		wg.Add(1)
		go func() {
			defer wg.Done()
			v, m, t := query(ob.NAssume, ob.Cond)
			r := &results[index[ob]]
			r.Verdict, r.TimeS, r.Model = v, t, m
		}()
	}
	groupRun := func(obs []*Obligation, fallbackAll bool) {
		if len(obs) == 0 {
			return
		}
		if len(obs) == 1 {
			single(obs[0])
			return
		}
		wg.Add(1)
		go func() {
			defer wg.Done()
			v, _, t := query(0, groupOf(obs))
			if v == "unsat" {
				for _, ob := range obs {
					results[index[ob]].Verdict = "unsat"
					results[index[ob]].TimeS = t / float64(len(obs))
				}
				return
			}
			for _, ob := range obs {
				single(ob)
			}
		}()
	}
	groupRun(side, true)
	if spec.GroupAsserts {
		groupRun(asserts, true)
	} else {
		for _, ob := range asserts {
			single(ob)
		}
	}
	for _, ob := range e.obligations {
		if ob.Kind == "reach" {
			single(ob)
		}
	}
	wg.Wait()
	status := "ok"
	for i, ob := range e.obligations {
		r := &results[i]
		switch {
		case ob.Kind == "reach":
			if r.Verdict == "unsat" {
				r.Verdict = "unsat (VACUOUS: not reachable)"
			}
			if r.Verdict != "sat" && status == "ok" {
				status = "inconclusive"
			}
			r.Model = nil
		case r.Verdict == "sat":
			status = "violation"
		case r.Verdict != "unsat" && status == "ok":
			status = "inconclusive"
		}
	}
	res.Obs = results
	res.Queries = totalQ
	res.SolverS = totalT.Seconds()
	res.Status = status
}

func (e *Engine) readModel(s *Solver, pr *Printer) map[string]string {
	var exprs, keys []string
	for _, nd := range e.nondets {
		if !pr.defined[nd.T.id] {
			continue // not part of any asserted formula so far
		}
		switch nd.Kind {
		case "bytes":
			for i := 0; i < nd.Len; i++ {
				exprs = append(exprs, fmt.Sprintf("(select %s #x%016x)", smtSym(nd.Name), i))
				keys = append(keys, fmt.Sprintf("%s[%d]", nd.Name, i))
			}
		default:
			exprs = append(exprs, smtSym(nd.Name))
			keys = append(keys, nd.Name)
		}
	}
	vals, err := s.GetValues(exprs)
	m := map[string]string{}
	if err != nil {
		m["_error"] = err.Error()
		return m
	}
	// collapse byte arrays into hex strings
	bytesOf := map[string][]byte{}
	for i, k := range keys {
		if j := strings.IndexByte(k, '['); j >= 0 {
			v, _ := parseBV(vals[i])
			bytesOf[k[:j]] = append(bytesOf[k[:j]], byte(v))
			continue
		}
		v, ok := parseBV(vals[i])
		if ok {
			m[k] = fmt.Sprintf("%d", v)
		} else {
			m[k] = vals[i]
		}
	}
	for k, b := range bytesOf {
		m[k] = fmt.Sprintf("hex:%x", b)
	}
	return m
}

func writeJSON(path string, v interface{}) error {
	b, err := json.MarshalIndent(v, "", " ")
	if err != nil {
		return err
	}
	return os.WriteFile(path, append(b, '\n'), 0o644)
}
