package main

import (
	"fmt"
	"go/token"
	"go/types"
	"math"

	"golang.org/x/tools/go/ssa"
)

func (e *Engine) execInstr(fr *frame, in ssa.Instruction, g *Term) {
	switch x := in.(type) {
	case *ssa.DebugRef:
	case *ssa.Alloc:
		et := x.Type().(*types.Pointer).Elem()
		o := newObject(x.Comment, et, zeroValue(et))
		ap := ptrTo(o)
		ap.NonNil = true
		fr.setReg(x, ap, g)
	case *ssa.BinOp:
		fr.setReg(x, e.binop(fr, x.Op, fr.val(x.X), fr.val(x.Y), x.X.Type(), x.Y.Type(), g, x.Pos()), g)
	case *ssa.UnOp:
		fr.setReg(x, e.unop(fr, x, g), g)
	case *ssa.Call:
		fnv, args := e.evalCallOperands(fr, &x.Call)
		r := e.doCall(fr, &x.Call, fnv, args, g, x.Pos())
		if r == nil {
			r = zeroMaybe(x.Type())
		}
		fr.setReg(x, r, g)
	case *ssa.ChangeType:
		fr.setReg(x, fr.val(x.X), g)
	case *ssa.ChangeInterface:
		fr.setReg(x, fr.val(x.X), g)
	case *ssa.Convert:
		fr.setReg(x, e.convert(fr, fr.val(x.X), x.X.Type(), x.Type(), g), g)
	case *ssa.MakeInterface:
		fr.setReg(x, &IfaceV{A: []IfaceAlt{{G: tTrue, Typ: x.X.Type(), Val: fr.val(x.X)}}}, g)
	case *ssa.MakeClosure:
		fn := x.Fn.(*ssa.Function)
		binds := make([]Value, len(x.Bindings))
		for i, b := range x.Bindings {
			binds[i] = fr.val(b)
		}
		fr.setReg(x, &FuncV{A: []FuncAlt{{G: tTrue, Fn: fn, Binds: binds}}}, g)
	case *ssa.MakeSlice:
		fr.setReg(x, e.makeSlice(fr, x.Type(), e.toIdx(fr.val(x.Len), x.Len.Type()), e.toIdx(fr.val(x.Cap), x.Cap.Type()), g, x.Pos()), g)
	case *ssa.MakeMap:
		mt := x.Type().Underlying().(*types.Map)
		o := newObject("map", x.Type(), nil)
		o.mp = &MapData{keyT: mt.Key(), valT: mt.Elem()}
		fr.setReg(x, &MapV{T: []PtrTarget{{G: tTrue, Obj: o}}}, g)
	case *ssa.MakeChan:
		ct := x.Type().Underlying().(*types.Chan)
		sz := fr.val(x.Size).(*Term)
		capv := 0
		if sz.IsConst() {
			capv = int(sz.val)
		} else {
			panic(unsupported("channel with symbolic capacity"))
		}
		o := newObject("chan", x.Type(), nil)
		o.ch = &ChanData{closed: tFalse, count: c64(0), cap: capv, elemT: ct.Elem()}
		fr.setReg(x, &ChanV{T: []PtrTarget{{G: tTrue, Obj: o}}}, g)
	case *ssa.Extract:
		t := fr.val(x.Tuple).(*StructV)
		fr.setReg(x, t.F[x.Index], g)
	case *ssa.Field:
		s := fr.val(x.X).(*StructV)
		fr.setReg(x, s.F[x.Field], g)
	case *ssa.FieldAddr:
		p := fr.val(x.X).(*PtrV)
		e.panicIf(fr, g, p.isNil(), "nil pointer dereference (field address)", x.Pos())
		fr.setReg(x, p.extend(PathElem{Field: x.Field}), g)
	case *ssa.IndexAddr:
		idx := e.toIdx(fr.val(x.Index), x.Index.Type())
		switch xt := x.X.Type().Underlying().(type) {
		case *types.Pointer: // *array
			at := xt.Elem().Underlying().(*types.Array)
			p := fr.val(x.X).(*PtrV)
			e.panicIf(fr, g, p.isNil(), "nil pointer dereference (array index)", x.Pos())
			e.panicIf(fr, g, Not(Ult(idx, c64(at.Len()))), "index out of range", x.Pos())
			fr.setReg(x, p.extend(PathElem{Idx: idx}), g)
		case *types.Slice:
			s := fr.val(x.X).(*SliceV)
			e.panicIf(fr, g, Not(Ult(idx, s.Len)), "index out of range", x.Pos())
			fr.setReg(x, s.Arr.extend(PathElem{Idx: Add(s.Off, idx)}), g)
		default:
			panic(unsupported("IndexAddr on " + x.X.Type().String()))
		}
	case *ssa.Index:
		idx := e.toIdx(fr.val(x.Index), x.Index.Type())
		switch v := fr.val(x.X).(type) {
		case *StrV:
			e.panicIf(fr, g, Not(Ult(idx, v.Len)), "string index out of range", x.Pos())
			fr.setReg(x, Select(v.Data, idx), g)
		case *ArrV:
			e.panicIf(fr, g, Not(Ult(idx, v.N)), "index out of range", x.Pos())
			fr.setReg(x, Select(v.T, idx), g)
		case *VecV:
			e.panicIf(fr, g, Not(Ult(idx, c64(int64(len(v.E))))), "index out of range", x.Pos())
			fr.setReg(x, readPath(v, []PathElem{{Idx: idx}}), g)
		default:
			panic(unsupported(fmt.Sprintf("Index on %T", v)))
		}
	case *ssa.Lookup:
		fr.setReg(x, e.lookup(fr, x, g), g)
	case *ssa.MapUpdate:
		e.mapUpdate(fr, fr.val(x.Map).(*MapV), fr.val(x.Key), fr.val(x.Value), g, x.Pos())
	case *ssa.Slice:
		fr.setReg(x, e.sliceOp(fr, x, g), g)
	case *ssa.Store:
		p := fr.val(x.Addr).(*PtrV)
		e.store(fr, p, fr.val(x.Val), g, x.Pos())
	case *ssa.TypeAssert:
		fr.setReg(x, e.typeAssert(fr, x, g), g)
	case *ssa.Range:
		fr.setReg(x, e.rangeInit(fr, x, g), g)
	case *ssa.Next:
		fr.setReg(x, e.rangeNext(fr, x, g), g)
	case *ssa.Select:
		fr.setReg(x, e.selectOp(fr, x, g), g)
	case *ssa.Send:
		e.chanSend(fr, fr.val(x.Chan).(*ChanV), fr.val(x.X), g, x.Pos())
	case *ssa.SliceToArrayPointer:
		s := fr.val(x.X).(*SliceV)
		at := x.Type().(*types.Pointer).Elem().Underlying().(*types.Array)
		e.panicIf(fr, g, Ult(s.Len, c64(at.Len())), "slice to array pointer: length too short", x.Pos())
		if !s.Off.IsConst() || s.Off.val != 0 {
			panic(unsupported("SliceToArrayPointer with non-zero offset"))
		}
		fr.setReg(x, s.Arr, g)
	case *ssa.MultiConvert:
		fr.setReg(x, e.convert(fr, fr.val(x.X), x.X.Type(), x.Type(), g), g)
	default:
		panic(unsupported(fmt.Sprintf("instruction %T in %s", in, fr.fn)))
	}
}

func zeroMaybe(t types.Type) Value {
	if tup, ok := t.(*types.Tuple); ok && tup.Len() == 0 {
		return nil
	}
	return zeroValue(t)
}

func (e *Engine) toIdx(v Value, t types.Type) *Term {
	x := v.(*Term)
	_, sg, _ := intWidth(t)
	return Resize(x, 64, sg)
}

// ---- memory ----

func (e *Engine) load(fr *frame, p *PtrV, g *Term, pos token.Pos) Value {
	e.panicIf(fr, g, p.isNil(), "nil pointer dereference (load)", pos)
	if len(p.T) == 0 {
		return nil
	}
	var out Value
	for i := len(p.T) - 1; i >= 0; i-- {
		t := p.T[i]
		v := readPath(t.Obj.val, t.Path)
		if out == nil {
			out = v
		} else {
			out = merge(t.G, v, out)
		}
	}
	return out
}

func (e *Engine) store(fr *frame, p *PtrV, v Value, g *Term, pos token.Pos) {
	e.panicIf(fr, g, p.isNil(), "nil pointer dereference (store)", pos)
	for _, t := range p.T {
		tg := And(g, t.G)
		if tg.IsFalse() {
			continue
		}
		t.Obj.val = writePath(t.Obj.val, t.Path, tg, v)
	}
}

func (e *Engine) makeSlice(fr *frame, t types.Type, n, c *Term, g *Term, pos token.Pos) Value {
	st := t.Underlying().(*types.Slice)
	n = Resize(n, 64, true)
	c = Resize(c, 64, true)
	e.panicIf(fr, g, Or(Slt(n, c64(0)), Slt(c, n)), "makeslice: len out of range", pos)
	if isScalarT(st.Elem()) {
		w, sg, _ := intWidth(st.Elem())
		o := newObject("makeslice", types.NewArray(st.Elem(), 0), zeroArr(w, c, sg))
		return &SliceV{Arr: ptrTo(o), Off: c64(0), Len: n, Cap: c}
	}
	if !c.IsConst() {
		panic(unsupported("make of non-scalar slice with symbolic capacity"))
	}
	k := int(c.val)
	v := &VecV{E: make([]Value, k)}
	for i := range v.E {
		v.E[i] = zeroValue(st.Elem())
	}
	o := newObject("makeslice", types.NewArray(st.Elem(), int64(k)), v)
	return &SliceV{Arr: ptrTo(o), Off: c64(0), Len: n, Cap: c}
}

func (e *Engine) sliceOp(fr *frame, x *ssa.Slice, g *Term) Value {
	get := func(v ssa.Value) *Term {
		if v == nil {
			return nil
		}
		return e.toIdx(fr.val(v), v.Type())
	}
	lo, hi, mx := get(x.Low), get(x.High), get(x.Max)
	if lo == nil {
		lo = c64(0)
	}
	switch xt := x.X.Type().Underlying().(type) {
	case *types.Basic: // string
		s := fr.val(x.X).(*StrV)
		if hi == nil {
			hi = s.Len
		}
		e.panicIf(fr, g, Not(And(Ule(lo, hi), Ule(hi, s.Len))), "string slice bounds out of range", x.Pos())
		return e.substr(s, lo, hi)
	case *types.Slice:
		s := fr.val(x.X).(*SliceV)
		if hi == nil {
			hi = s.Len
		}
		capv := s.Cap
		if mx != nil {
			e.panicIf(fr, g, Not(And(Ule(hi, mx), Ule(mx, s.Cap))), "slice bounds out of range (max)", x.Pos())
			capv = mx
		}
		e.panicIf(fr, g, Not(And(Ule(lo, hi), Ule(hi, s.Cap))), "slice bounds out of range", x.Pos())
		return &SliceV{Arr: s.Arr, Off: Add(s.Off, lo), Len: Sub(hi, lo), Cap: Sub(capv, lo)}
	case *types.Pointer:
		at := xt.Elem().Underlying().(*types.Array)
		p := fr.val(x.X).(*PtrV)
		e.panicIf(fr, g, p.isNil(), "nil pointer dereference (slice of array)", x.Pos())
		n := c64(at.Len())
		if hi == nil {
			hi = n
		}
		capv := n
		if mx != nil {
			e.panicIf(fr, g, Not(And(Ule(hi, mx), Ule(mx, n))), "slice bounds out of range (max)", x.Pos())
			capv = mx
		}
		e.panicIf(fr, g, Not(And(Ule(lo, hi), Ule(hi, n))), "slice bounds out of range", x.Pos())
		return &SliceV{Arr: p, Off: lo, Len: Sub(hi, lo), Cap: Sub(capv, lo)}
	}
	panic(unsupported("Slice of " + x.X.Type().String()))
}

func (e *Engine) substr(s *StrV, lo, hi *Term) *StrV {
	n := Sub(hi, lo)
	mx := s.Max
	if n.IsConst() && int(n.val) < mx {
		mx = int(n.val)
	}
	if !n.IsConst() && umax(n) > uint64(mx) {
		// the bounds obligation of the slice expression has been recorded and
		// assumed: 0 <= lo <= hi <= len <= Max, so n = min(n, Max) on every
		// continuing path; writing it so lets later comparisons fold
		m := c64(int64(mx))
		n = Ite(Ult(m, n), m, n)
	}
	if lo.IsConst() && lo.val == 0 {
		return &StrV{Len: n, Data: s.Data, Max: mx}
	}
	if lo.IsConst() && int(lo.val) <= s.Max {
		if s.Max-int(lo.val) < mx {
			mx = s.Max - int(lo.val)
		}
	}
	d := shiftArr(s.Data, lo, mx, 8)
	return &StrV{Len: n, Data: d, Max: mx}
}

// shiftArr returns an array r with r[i] = a[i+off] for i < n (n concrete bound).
func shiftArr(a *Term, off *Term, n int, ew int) *Term {
	if off.IsConst() && off.val == 0 {
		return a
	}
	if n <= 64 {
		r := ConstArr(64, ew, Const(ew, 0))
		for i := 0; i < n; i++ {
			r = Store(r, c64(int64(i)), Select(a, Add(off, c64(int64(i)))))
		}
		return r
	}
	return Lambda(64, ew, func(i *Term) *Term { return Select(a, Add(i, off)) })
}

// sliceArr returns the SMT array and element info behind a scalar slice,
// merging over pointer targets.
func (e *Engine) sliceArr(s *SliceV) *ArrV {
	var out *ArrV
	for i := len(s.Arr.T) - 1; i >= 0; i-- {
		t := s.Arr.T[i]
		v, ok := readPath(t.Obj.val, t.Path).(*ArrV)
		if !ok {
			panic(unsupported(fmt.Sprintf("slice backing is %T, want scalar array", readPath(t.Obj.val, t.Path))))
		}
		if out == nil {
			out = v
		} else {
			out = merge(t.G, v, out).(*ArrV)
		}
	}
	return out
}

// arrCopy writes src[soff : soff+n] into dst at doff (array terms).
func arrCopy(dst, doff, src, soff, n *Term, ew int) *Term {
	return arrCopyB(dst, doff, src, soff, n, ew, umax(n))
}

// arrCopyB: as arrCopy, with an externally known upper bound of n (e.g. the
// size of the smaller backing array).
func arrCopyB(dst, doff, src, soff, n *Term, ew int, bound uint64) *Term {
	if n.IsConst() && n.val <= 96 {
		// read all sources first (overlap-safe: memmove semantics)
		vals := make([]*Term, n.val)
		for i := range vals {
			vals[i] = Select(src, Add(soff, c64(int64(i))))
		}
		for i := range vals {
			dst = Store(dst, Add(doff, c64(int64(i))), vals[i])
		}
		return dst
	}
	if m := bound; m <= 256 {
		vals := make([]*Term, m)
		for i := range vals {
			vals[i] = Select(src, Add(soff, c64(int64(i))))
		}
		for i := range vals {
			at := Add(doff, c64(int64(i)))
			dst = Store(dst, at, Ite(Ult(c64(int64(i)), n), vals[i], Select(dst, at)))
		}
		return dst
	}
	return Lambda(64, ew, func(i *Term) *Term {
		rel := Sub(i, doff)
		return Ite(Ult(rel, n), Select(src, Add(soff, rel)), Select(dst, i))
	})
}

// storeArr replaces the scalar array behind slice s with f(old).
func (e *Engine) updateSliceArr(fr *frame, s *SliceV, g *Term, f func(old *ArrV) *Term) {
	for _, t := range s.Arr.T {
		tg := And(g, t.G)
		if tg.IsFalse() {
			continue
		}
		old, ok := readPath(t.Obj.val, t.Path).(*ArrV)
		if !ok {
			panic(unsupported("updateSliceArr on non-scalar backing"))
		}
		nt := f(old)
		t.Obj.val = writePath(t.Obj.val, t.Path, tg, &ArrV{T: nt, N: old.N, EW: old.EW, Signed: old.Signed})
	}
}

// ---- operators ----

func (e *Engine) unop(fr *frame, x *ssa.UnOp, g *Term) Value {
	v := fr.val(x.X)
	switch x.Op {
	case token.MUL:
		r := e.load(fr, v.(*PtrV), g, x.Pos())
		if r == nil {
			return zeroValue(x.Type())
		}
		return r
	case token.NOT:
		return Not(v.(*Term))
	case token.SUB:
		if isFloat(x.X.Type()) {
			return fop("fneg", v.(*Term).W(), v.(*Term))
		}
		return Neg(v.(*Term))
	case token.XOR:
		return BNot(v.(*Term))
	case token.ARROW:
		return e.chanRecv(fr, v.(*ChanV), x.CommaOk, g, x.Pos())
	}
	panic(unsupported("unop " + x.Op.String()))
}

func fop(name string, w int, args ...*Term) *Term {
	// fold when all constant (float64 only)
	allc := true
	for _, a := range args {
		if !a.IsConst() {
			allc = false
		}
	}
	if allc && w == 64 {
		f := func(i int) float64 { return math.Float64frombits(args[i].val) }
		switch name {
		case "fadd":
			return Const(64, math.Float64bits(f(0)+f(1)))
		case "fsub":
			return Const(64, math.Float64bits(f(0)-f(1)))
		case "fmul":
			return Const(64, math.Float64bits(f(0)*f(1)))
		case "fdiv":
			return Const(64, math.Float64bits(f(0)/f(1)))
		case "fneg":
			return Const(64, math.Float64bits(-f(0)))
		}
	}
	return Apply(fmt.Sprintf("%s%d", name, w), BV(w), args...)
}

func fcmp(name string, a, b *Term) *Term {
	if a.IsConst() && b.IsConst() && a.W() == 64 {
		x, y := math.Float64frombits(a.val), math.Float64frombits(b.val)
		switch name {
		case "flt":
			return Bool(x < y)
		case "fle":
			return Bool(x <= y)
		case "feq":
			return Bool(x == y)
		}
	}
	return Eq(Apply(fmt.Sprintf("%s%d", name, a.W()), BV(1), a, b), Const(1, 1))
}

func (e *Engine) binop(fr *frame, op token.Token, a, b Value, ta, tb types.Type, g *Term, pos token.Pos) Value {
	switch x := a.(type) {
	case *Term:
		y, ok := b.(*Term)
		if !ok {
			break
		}
		if x.sort.K == SBool {
			switch op {
			case token.EQL:
				return Eq(x, y)
			case token.NEQ:
				return Ne(x, y)
			case token.AND, token.LAND:
				return And(x, y)
			case token.OR, token.LOR:
				return Or(x, y)
			case token.XOR:
				return Ne(x, y)
			}
			panic(unsupported("bool binop " + op.String()))
		}
		if isFloat(ta) {
			w := x.W()
			switch op {
			case token.ADD:
				return fop("fadd", w, x, y)
			case token.SUB:
				return fop("fsub", w, x, y)
			case token.MUL:
				return fop("fmul", w, x, y)
			case token.QUO:
				return fop("fdiv", w, x, y)
			case token.LSS:
				return fcmp("flt", x, y)
			case token.LEQ:
				return fcmp("fle", x, y)
			case token.GTR:
				return fcmp("flt", y, x)
			case token.GEQ:
				return fcmp("fle", y, x)
			case token.EQL:
				return fcmp("feq", x, y)
			case token.NEQ:
				return Not(fcmp("feq", x, y))
			}
			panic(unsupported("float binop " + op.String()))
		}
		_, sg, _ := intWidth(ta)
		w := x.W()
		switch op {
		case token.ADD:
			return Add(x, y)
		case token.SUB:
			return Sub(x, y)
		case token.MUL:
			return Mul(x, y)
		case token.QUO:
			e.panicIf(fr, g, Eq(y, Const(w, 0)), "integer divide by zero", pos)
			if sg {
				return SDiv(x, y)
			}
			return UDiv(x, y)
		case token.REM:
			e.panicIf(fr, g, Eq(y, Const(w, 0)), "integer divide by zero", pos)
			if sg {
				return SRem(x, y)
			}
			return URem(x, y)
		case token.AND:
			return BAnd(x, y)
		case token.OR:
			return BOr(x, y)
		case token.XOR:
			return BXor(x, y)
		case token.AND_NOT:
			return BAnd(x, BNot(y))
		case token.SHL, token.SHR:
			// shift count: y has its own type/width; negative count panics
			_, ysg, _ := intWidth(tb)
			if ysg {
				e.panicIf(fr, g, Slt(y, Const(y.W(), 0)), "negative shift amount", pos)
			}
			var amt *Term
			var big *Term // count >= w
			if y.W() > w {
				big = Uge(y, Const(y.W(), uint64(w)))
				amt = Extract(y, w-1, 0)
			} else {
				amt = Zext(y, w-y.W())
				big = Uge(amt, Const(w, uint64(w)))
			}
			if op == token.SHL {
				return Ite(big, Const(w, 0), Shl(x, amt))
			}
			if sg {
				return Ashr(x, Ite(big, Const(w, uint64(w-1)), amt))
			}
			return Ite(big, Const(w, 0), Lshr(x, amt))
		case token.EQL:
			return Eq(x, y)
		case token.NEQ:
			return Ne(x, y)
		case token.LSS:
			if sg {
				return Slt(x, y)
			}
			return Ult(x, y)
		case token.LEQ:
			if sg {
				return Sle(x, y)
			}
			return Ule(x, y)
		case token.GTR:
			if sg {
				return Sgt(x, y)
			}
			return Ugt(x, y)
		case token.GEQ:
			if sg {
				return Sge(x, y)
			}
			return Uge(x, y)
		}
		panic(unsupported("int binop " + op.String()))
	case *StrV:
		y := b.(*StrV)
		switch op {
		case token.ADD:
			return e.strConcat(x, y)
		case token.EQL:
			return e.strEq(x, y)
		case token.NEQ:
			return Not(e.strEq(x, y))
		case token.LSS, token.LEQ, token.GTR, token.GEQ:
			return e.strCmp(op, x, y)
		}
	}
	switch op {
	case token.EQL:
		return e.valEq(a, b)
	case token.NEQ:
		return Not(e.valEq(a, b))
	}
	panic(unsupported(fmt.Sprintf("binop %s on %T,%T", op, a, b)))
}

func targetsEq(a, b []PtrTarget) *Term {
	var alts []*Term
	var ga, gb []*Term
	for _, t := range a {
		ga = append(ga, t.G)
	}
	for _, t := range b {
		gb = append(gb, t.G)
	}
	alts = append(alts, And(Not(Or(ga...)), Not(Or(gb...)))) // both nil
	for _, t := range a {
		for _, u := range b {
			if t.Obj != u.Obj || len(t.Path) != len(u.Path) {
				continue
			}
			conds := []*Term{t.G, u.G}
			same := true
			for i := range t.Path {
				pe, qe := t.Path[i], u.Path[i]
				if (pe.Idx == nil) != (qe.Idx == nil) || pe.Field != qe.Field {
					same = false
					break
				}
				if pe.Idx != nil {
					conds = append(conds, Eq(pe.Idx, qe.Idx))
				}
			}
			if same {
				alts = append(alts, And(conds...))
			}
		}
	}
	return Or(alts...)
}

func (e *Engine) valEq(a, b Value) *Term {
	switch x := a.(type) {
	case *Term:
		return Eq(x, b.(*Term))
	case *PtrV:
		return targetsEq(x.T, b.(*PtrV).T)
	case *MapV:
		return targetsEq(x.T, b.(*MapV).T)
	case *ChanV:
		return targetsEq(x.T, b.(*ChanV).T)
	case *StrV:
		return e.strEq(x, b.(*StrV))
	case *StructV:
		y := b.(*StructV)
		var cs []*Term
		for i := range x.F {
			cs = append(cs, e.valEq(x.F[i], y.F[i]))
		}
		return And(cs...)
	case *ArrV:
		y := b.(*ArrV)
		if !x.N.IsConst() {
			panic(unsupported("array equality with symbolic length"))
		}
		var cs []*Term
		for i := 0; i < int(x.N.val); i++ {
			cs = append(cs, Eq(Select(x.T, c64(int64(i))), Select(y.T, c64(int64(i)))))
		}
		return And(cs...)
	case *VecV:
		y := b.(*VecV)
		var cs []*Term
		for i := range x.E {
			cs = append(cs, e.valEq(x.E[i], y.E[i]))
		}
		return And(cs...)
	case *IfaceV:
		y, ok := b.(*IfaceV)
		if !ok {
			panic(unsupported(fmt.Sprintf("interface compared with %T", b)))
		}
		var gx, gy []*Term
		for _, al := range x.A {
			gx = append(gx, al.G)
		}
		for _, al := range y.A {
			gy = append(gy, al.G)
		}
		alts := []*Term{And(Not(Or(gx...)), Not(Or(gy...)))}
		for _, al := range x.A {
			for _, bl := range y.A {
				if types.Identical(al.Typ, bl.Typ) {
					alts = append(alts, And(al.G, bl.G, e.valEq(al.Val, bl.Val)))
				}
			}
		}
		return Or(alts...)
	case *SliceV:
		// only comparison with nil is legal
		y := b.(*SliceV)
		if len(y.Arr.T) == 0 {
			return x.Arr.isNil()
		}
		if len(x.Arr.T) == 0 {
			return y.Arr.isNil()
		}
	case *FuncV:
		y := b.(*FuncV)
		nilOf := func(f *FuncV) *Term {
			var gs []*Term
			for _, al := range f.A {
				gs = append(gs, al.G)
			}
			return Not(Or(gs...))
		}
		if len(y.A) == 0 {
			return nilOf(x)
		}
		if len(x.A) == 0 {
			return nilOf(y)
		}
	}
	panic(unsupported(fmt.Sprintf("equality on %T", a)))
}

// ---- strings ----

func (e *Engine) strEq(x, y *StrV) *Term {
	n := x.Max
	if y.Max < n {
		n = y.Max
	}
	cs := []*Term{Eq(x.Len, y.Len)}
	for i := 0; i < n; i++ {
		ii := c64(int64(i))
		cs = append(cs, Or(Uge(ii, x.Len), Eq(Select(x.Data, ii), Select(y.Data, ii))))
	}
	// lengths beyond the common maximum cannot be equal unless both within it
	cs = append(cs, Ule(x.Len, c64(int64(n))))
	return And(cs...)
}

func (e *Engine) strCmp(op token.Token, x, y *StrV) *Term {
	// lexicographic compare, bounded by the maxima
	n := x.Max
	if y.Max > n {
		n = y.Max
	}
	// lt: exists first differing position i < min(len) with x[i] < y[i], or x is a proper prefix
	lt := Ult(x.Len, y.Len)  // value if all common bytes equal
	eq := Eq(x.Len, y.Len)
	for i := n - 1; i >= 0; i-- {
		ii := c64(int64(i))
		inb := And(Ult(ii, x.Len), Ult(ii, y.Len))
		xb, yb := Select(x.Data, ii), Select(y.Data, ii)
		lt = Ite(inb, Ite(Eq(xb, yb), lt, Ult(xb, yb)), lt)
		eq = Ite(inb, And(Eq(xb, yb), eq), eq)
	}
	switch op {
	case token.LSS:
		return lt
	case token.LEQ:
		return Or(lt, eq)
	case token.GTR:
		return And(Not(lt), Not(eq))
	default:
		return Not(lt)
	}
}

func (e *Engine) strConcat(x, y *StrV) *StrV {
	if x.Len.IsConst() && x.Len.val == 0 {
		return y
	}
	if y.Len.IsConst() && y.Len.val == 0 {
		return x
	}
	var d *Term
	if y.Max <= 64 {
		d = x.Data
		// write y after x; positions beyond len are don't-care
		for i := 0; i < y.Max; i++ {
			d = Store(d, Add(x.Len, c64(int64(i))), Select(y.Data, c64(int64(i))))
		}
	} else {
		d = arrCopy(x.Data, x.Len, y.Data, c64(0), y.Len, 8)
	}
	return &StrV{Len: Add(x.Len, y.Len), Data: d, Max: x.Max + y.Max}
}

// ---- conversions ----

func (e *Engine) convert(fr *frame, v Value, from, to types.Type, g *Term) Value {
	fu, tu := from.Underlying(), to.Underlying()
	// generic type params resolved by instantiation; treat by underlying
	if fb, ok := fu.(*types.Basic); ok {
		if tb, ok := tu.(*types.Basic); ok {
			x, isT := v.(*Term)
			switch {
			case fb.Info()&types.IsString != 0 && tb.Info()&types.IsString != 0:
				return v
			case isT && fb.Info()&types.IsInteger != 0 && tb.Info()&types.IsInteger != 0:
				w, _, _ := intWidth(to)
				_, sg, _ := intWidth(from)
				return Resize(x, w, sg)
			case isT && fb.Info()&types.IsInteger != 0 && tb.Info()&types.IsFloat != 0:
				w, _, _ := intWidth(to)
				_, sg, _ := intWidth(from)
				if x.IsConst() && w == 64 {
					if sg {
						return Const(64, math.Float64bits(float64(sx(x.val, x.W()))))
					}
					return Const(64, math.Float64bits(float64(x.val)))
				}
				nm := "u2f"
				if sg {
					nm = "i2f"
				}
				return Apply(fmt.Sprintf("%s_%d_%d", nm, x.W(), w), BV(w), x)
			case isT && fb.Info()&types.IsFloat != 0 && tb.Info()&types.IsInteger != 0:
				w, sg, _ := intWidth(to)
				if x.IsConst() && x.W() == 64 {
					f := math.Float64frombits(x.val)
					if sg {
						return Const(w, uint64(int64(f)))
					}
					return Const(w, uint64(f))
				}
				return Apply(fmt.Sprintf("f2i_%d_%d", x.W(), w), BV(w), x)
			case isT && fb.Info()&types.IsFloat != 0 && tb.Info()&types.IsFloat != 0:
				w, _, _ := intWidth(to)
				if w == x.W() {
					return x
				}
				return Apply(fmt.Sprintf("f2f_%d_%d", x.W(), w), BV(w), x)
			case isT && fb.Info()&types.IsInteger != 0 && tb.Info()&types.IsString != 0:
				// string(rune): only ASCII supported
				b := Resize(x, 8, false)
				d := Store(ConstArr(64, 8, Const(8, 0)), c64(0), b)
				e.note("string(rune) modelled for ASCII only")
				return &StrV{Len: c64(1), Data: d, Max: 1}
			case fb.Kind() == types.UnsafePointer || tb.Kind() == types.UnsafePointer:
				panic(unsupported("unsafe.Pointer conversion"))
			}
		}
		if ts, ok := tu.(*types.Slice); ok && fb.Info()&types.IsString != 0 {
			// []byte(s)
			if w, _, _ := intWidth(ts.Elem()); w != 8 {
				panic(unsupported("[]rune(string)"))
			}
			s := v.(*StrV)
			o := newObject("bytes(str)", types.NewArray(ts.Elem(), 0), &ArrV{T: s.Data, N: s.Len, EW: 8})
			return &SliceV{Arr: ptrTo(o), Off: c64(0), Len: s.Len, Cap: s.Len}
		}
	}
	if fs, ok := fu.(*types.Slice); ok {
		if tb, ok := tu.(*types.Basic); ok && tb.Info()&types.IsString != 0 {
			if w, _, _ := intWidth(fs.Elem()); w != 8 {
				panic(unsupported("string([]rune)"))
			}
			s := v.(*SliceV)
			if len(s.Arr.T) == 0 {
				return strConst("")
			}
			a := e.sliceArr(s)
			mx := 1 << 16
			if s.Len.IsConst() {
				mx = int(s.Len.val)
			} else if m := umax(s.Len); m < uint64(mx) {
				mx = int(m)
			}
			return &StrV{Len: s.Len, Data: shiftArr(a.T, s.Off, mx, 8), Max: mx}
		}
		if _, ok := tu.(*types.Slice); ok {
			return v
		}
	}
	if _, ok := tu.(*types.Pointer); ok {
		if _, ok := fu.(*types.Pointer); ok {
			return v
		}
	}
	if types.Identical(fu, tu) {
		return v
	}
	panic(unsupported(fmt.Sprintf("convert %s -> %s", from, to)))
}

// ---- type assertions ----

func (e *Engine) typeAssert(fr *frame, x *ssa.TypeAssert, g *Term) Value {
	iv := fr.val(x.X).(*IfaceV)
	at := x.AssertedType
	if types.IsInterface(at) {
		it := at.Underlying().(*types.Interface)
		out := &IfaceV{}
		var oks []*Term
		for _, al := range iv.A {
			if e.implements(al.Typ, it) {
				out.A = append(out.A, al)
				oks = append(oks, al.G)
			}
		}
		ok := Or(oks...)
		if x.CommaOk {
			return &StructV{F: []Value{out, ok}}
		}
		e.panicIf(fr, g, Not(ok), "interface conversion failed: "+at.String(), x.Pos())
		return out
	}
	var val Value
	var oks []*Term
	for _, al := range iv.A {
		if types.Identical(al.Typ, at) {
			if val == nil {
				val = al.Val
			} else {
				val = merge(al.G, al.Val, val)
			}
			oks = append(oks, al.G)
		}
	}
	ok := Or(oks...)
	if val == nil {
		val = zeroValue(at)
	} else if !ok.IsTrue() {
		val = merge(ok, val, zeroValue(at))
	}
	if x.CommaOk {
		return &StructV{F: []Value{val, ok}}
	}
	e.panicIf(fr, g, Not(ok), "type assertion failed: "+at.String(), x.Pos())
	return val
}

func (e *Engine) implements(t types.Type, it *types.Interface) bool {
	if t == opaqueErrT {
		if it.NumMethods() == 0 {
			return true
		}
		return it.NumMethods() == 1 && it.Method(0).Name() == "Error"
	}
	return types.Implements(t, it)
}
