package main

import (
	"encoding/json"
	"flag"
	"fmt"
	"os"
	"os/exec"
	"path/filepath"
	"sort"
	"strconv"
	"strings"
	"sync"
	"time"
)

// HarnessDef registers one harness of a property.
type HarnessDef struct {
	ID       string // lemma id, e.g. H17.1
	Spec     HarnessSpec
	Thorough *HarnessSpec // overrides for the thorough tier (nil: same as quick)
	Tier     string       // "" = both tiers, "thorough" = thorough tier only
	ReplayFn string       // native replay function in the overlay (default: the harness itself)
	ReplayPatches []SrcPatch // textual redirects applied to copies of /repo files for the native replay
	// KnownFinding: this harness isolates a listed finding: `sat` is expected
	// while the finding is open and prints KNOWN-FINDING instead of VIOLATION.
	KnownFinding string
	What         string // one line: what the harness decides
	Bounds       string // stated bounds
	Outside      string // what lies outside them
}

type KnownFinding struct {
	ID       string `json:"id"`
	Property string `json:"property"`
	Status   string `json:"status"` // open | fixed
	Identity string `json:"identity"`
	Commit   string `json:"commit,omitempty"`
	Note     string `json:"note,omitempty"`
}

func loadKnown() []KnownFinding {
	b, err := os.ReadFile(filepath.Join(verifRoot, "known_findings.json"))
	if err != nil {
		return nil
	}
	var f struct {
		Findings []KnownFinding `json:"findings"`
	}
	if err := json.Unmarshal(b, &f); err != nil {
		fmt.Fprintln(os.Stderr, "known_findings.json:", err)
		os.Exit(2)
	}
	return f.Findings
}

type runOut struct {
	wall float64
	def *HarnessDef
	res *HarnessResult
	err error
}

func runSub(def *HarnessDef, spec *HarnessSpec, tmp string) (ro runOut) {
	t0 := time.Now()
	defer func() { ro.wall = time.Since(t0).Seconds() }()
	return runSub0(def, spec, tmp)
}

func runSub0(def *HarnessDef, spec *HarnessSpec, tmp string) runOut {
	sp := filepath.Join(tmp, def.ID+"_"+spec.Name+".spec.json")
	op := filepath.Join(tmp, def.ID+"_"+spec.Name+".out.json")
	if err := writeJSON(sp, spec); err != nil {
		return runOut{def: def, err: err}
	}
	exe, _ := os.Executable()
	cmd := exec.Command(exe, "run-harness", "--spec", sp, "--out", op)
	cmd.Env = append(os.Environ(), "VERIF_ROOT="+verifRoot)
	outb, err := cmd.CombinedOutput()
	if err != nil {
		return runOut{def: def, err: fmt.Errorf("%v: %s", err, tail(string(outb), 2000))}
	}
	b, err := os.ReadFile(op)
	if err != nil {
		return runOut{def: def, err: err}
	}
	var res HarnessResult
	if err := json.Unmarshal(b, &res); err != nil {
		return runOut{def: def, err: err}
	}
	return runOut{def: def, res: &res}
}

func tail(s string, n int) string {
	if len(s) > n {
		return s[len(s)-n:]
	}
	return s
}

func cmdList() {
	var ids []string
	for id := range registry {
		ids = append(ids, id)
	}
	sort.Strings(ids)
	for _, id := range ids {
		for _, h := range registry[id] {
			fmt.Printf("%s %s %s [%s] %s\n", id, h.ID, h.Spec.Name, h.Tier, h.What)
		}
	}
}

func cmdCheck(args []string) int {
	fs := flag.NewFlagSet("check", flag.ExitOnError)
	prop := fs.String("property", "", "property id")
	tier := fs.String("tier", "", "quick|thorough")
	only := fs.String("only", "", "run only harnesses whose id or name contains this")
	par := fs.Int("j", 14, "parallel harness processes")
	noEvidence := fs.Bool("noevidence", false, "do not rewrite the evidence file (used when evaluating seeded changes on a scratch tree)")
	fs.Parse(args)
	if *tier == "" {
		*tier = os.Getenv("VERIF_TIER")
	}
	if *tier == "" {
		*tier = "quick"
	}
	seed, _ := strconv.Atoi(os.Getenv("VERIF_SEED"))
	defs, ok := registry[*prop]
	if !ok {
		fmt.Fprintln(os.Stderr, "unknown property", *prop)
		return 2
	}
	t0 := time.Now()
	known := loadKnown()
	openIDs := map[string]*KnownFinding{}
	for i := range known {
		if known[i].Status == "open" && known[i].Property == *prop {
			openIDs[known[i].ID] = &known[i]
		}
	}
	tmp, err := os.MkdirTemp("", "gosmt-check-")
	if err != nil {
		fmt.Fprintln(os.Stderr, err)
		return 2
	}
	defer os.RemoveAll(tmp)

	var jobs []*HarnessDef
	var specs []*HarnessSpec
	for i := range defs {
		d := &defs[i]
		if d.Tier == "off" || (d.Tier == "thorough" && *tier != "thorough") {
			continue // "off": written but not registered (too slow or not decided within its cap; DESIGN.md 10.7)
		}
		if *only != "" && !strings.Contains(d.ID, *only) && !strings.Contains(d.Spec.Name, *only) {
			continue
		}
		if d.KnownFinding != "" && openIDs[d.KnownFinding] == nil {
			continue // finding not listed as open: its region is part of the main harness
		}
		sp := d.Spec
		if *tier == "thorough" && d.Thorough != nil {
			sp = *d.Thorough
			if sp.Name == "" {
				sp.Name = d.Spec.Name
			}
			if sp.Pkg == "" {
				sp.Pkg = d.Spec.Pkg
			}
			if sp.Redirects == nil {
				sp.Redirects = d.Spec.Redirects
			}
		}
		for id := range openIDs {
			sp.KnownOpen = append(sp.KnownOpen, id)
		}
		sort.Strings(sp.KnownOpen)
		jobs = append(jobs, d)
		spc := sp
		specs = append(specs, &spc)
	}
	results := make([]runOut, len(jobs))
	sem := make(chan struct{}, *par)
	var wg sync.WaitGroup
	for i := range jobs {
		wg.Add(1)
		go func(i int) {
			defer wg.Done()
			sem <- struct{}{}
			defer func() { <-sem }()
			results[i] = runSub(jobs[i], specs[i], tmp)
		}(i)
	}
	wg.Wait()

	// ---- aggregate ----
	exit := 0
	violations := 0
	var lines []string
	var samples []interface{}
	evals, nontrivial := 0, 0
	solverS := 0.0
	funcs := map[string]int{}
	stubs := map[string]int{}
	notes := map[string]bool{}
	var harnessSumm []map[string]interface{}
	obligations, discharged, inconclusive := 0, 0, 0
	folded := 0
	unwind := map[string]int{}
	seenOb := map[string]bool{}
	os.MkdirAll(filepath.Join(verifRoot, "replays"), 0o755)
	for i, ro := range results {
		d := jobs[i]
		summ := map[string]interface{}{"lemma": d.ID, "harness": specs[i].Name, "pkg": specs[i].Pkg, "what": d.What,
			"bounds": d.Bounds, "outside_claim": d.Outside, "loop_bound": specs[i].LoopBound}
		if ro.err != nil || ro.res == nil {
			lines = append(lines, fmt.Sprintf("INCONCLUSIVE property=%s harness=%s: %v", *prop, specs[i].Name, ro.err))
			summ["status"] = "error"
			harnessSumm = append(harnessSumm, summ)
			if exit == 0 {
				exit = 2
			}
			continue
		}
		r := ro.res
		summ["status"] = r.Status
		summ["wall_s"] = ro.wall
		if os.Getenv("GOSMT_TIMES") != "" {
			fmt.Printf("  [time] %-40s %-13s wall=%.0fs solver=%.0fs queries=%d obligations=%d\n", r.Name, r.Status, ro.wall, r.SolverS, r.Queries, len(r.Obs))
		}
		summ["queries"] = r.Queries
		summ["solver_time_s"] = r.SolverS
		summ["encode_time_s"] = r.ExecS
		summ["term_nodes"] = r.Nodes
		summ["ssa_instructions"] = r.Steps
		summ["solver"] = r.Solver
		summ["nondet_inputs"] = len(r.Nondets)
		summ["assumptions"] = r.NAssume
		if len(r.Folded) > 0 {
			summ["asserts_decided_by_simplifier"] = r.Folded
			for _, v := range r.Folded {
				folded += v
			}
		}
		evals += r.Queries
		solverS += r.SolverS
		for k, v := range r.Functions {
			funcs[k] += v
		}
		for k, v := range r.Stubs {
			stubs[k] += v
		}
		for _, n := range r.Notes {
			notes[n] = true
		}
		for k, v := range r.Unwind {
			if v > unwind[k] {
				unwind[k] = v
			}
		}
		if r.Status == "unsupported" {
			lines = append(lines, fmt.Sprintf("INCONCLUSIVE property=%s harness=%s: %s", *prop, r.Name, r.Error))
			summ["error"] = r.Error
			harnessSumm = append(harnessSumm, summ)
			if exit == 0 {
				exit = 2
			}
			continue
		}
		reachOK := true
		for _, ob := range r.Obs {
			if ob.Kind == "reach" && ob.Verdict != "sat" {
				reachOK = false
			}
		}
		var obsumm []map[string]interface{}
		for _, ob := range r.Obs {
			key := r.Name + "|" + ob.Label + "|" + ob.Pos
			os := map[string]interface{}{"label": ob.Label, "kind": ob.Kind, "site": ob.Pos, "verdict": ob.Verdict, "time_s": ob.TimeS}
			if ob.Kind == "reach" {
				if ob.Verdict != "sat" {
					lines = append(lines, fmt.Sprintf("INCONCLUSIVE property=%s harness=%s: vacuity witness '%s' is %s", *prop, r.Name, ob.Label, ob.Verdict))
					if exit == 0 {
						exit = 2
					}
				}
				obsumm = append(obsumm, os)
				continue
			}
			obligations++
			switch {
			case ob.Verdict == "unsat":
				discharged++
				if reachOK && !seenOb[key] {
					seenOb[key] = true
					nontrivial++
				}
			case ob.Verdict == "sat":
				// counterexample: replay natively before reporting
				rp := filepath.Join(verifRoot, "replays", fmt.Sprintf("%s_%s_%d.json", *prop, r.Name, len(lines)))
				rec := ReplayRecord{Property: *prop, Harness: r.Name, Pkg: r.Pkg, Label: ob.Label, Kind: ob.Kind, Site: ob.Pos, Vector: ob.Model, ReplayFn: d.ReplayFn, Redirects: specs[i].Redirects, Patches: d.ReplayPatches, ExtraPkgs: specs[i].ExtraPkgs}
				writeJSON(rp, rec)
				reproduced, detail := replayRecord(&rec)
				os["replay"] = rp
				os["reproduced"] = reproduced
				os["replay_detail"] = detail
				os["model"] = ob.Model
				if d.KnownFinding != "" {
					kf := openIDs[d.KnownFinding]
					if reproduced {
						lines = append(lines, fmt.Sprintf("KNOWN-FINDING: property=%s %s [%s] (%s; replay=%s)", *prop, kf.Identity, kf.ID, ob.Label, rp))
					} else {
						lines = append(lines, fmt.Sprintf("INCONCLUSIVE property=%s harness=%s: known finding %s is sat but did not reproduce natively: %s", *prop, r.Name, kf.ID, detail))
						if exit == 0 {
							exit = 2
						}
					}
				} else if reproduced {
					violations++
					lines = append(lines, fmt.Sprintf("VIOLATION property=%s replay=%s", *prop, rp))
					lines = append(lines, fmt.Sprintf("  harness=%s obligation=%q site=%s detail=%s", r.Name, ob.Label, ob.Pos, detail))
					exit = 1
				} else {
					lines = append(lines, fmt.Sprintf("INCONCLUSIVE property=%s harness=%s: counterexample for %q did not reproduce natively (%s); model kept at %s", *prop, r.Name, ob.Label, detail, rp))
					if exit == 0 {
						exit = 2
					}
				}
			default:
				inconclusive++
				lines = append(lines, fmt.Sprintf("INCONCLUSIVE property=%s harness=%s: %q -> %s", *prop, r.Name, ob.Label, ob.Verdict))
				if exit == 0 {
					exit = 2
				}
			}
			obsumm = append(obsumm, os)
		}
		if d.KnownFinding != "" && r.Status == "ok" {
			summ["known_finding_gone"] = true
		}
		summ["obligations"] = obsumm
		harnessSumm = append(harnessSumm, summ)
		if len(samples) < 12 && len(obsumm) > 0 {
			samples = append(samples, map[string]interface{}{"harness": r.Name, "lemma": d.ID, "obligation": obsumm[0], "inputs": r.Nondets})
		}
	}
	if violations > 0 {
		exit = 1
	}
	for _, l := range lines {
		fmt.Println(l)
	}
	wall := time.Since(t0).Seconds()
	if nontrivial < 2 && exit == 0 {
		// schema floor; a check with fewer than 2 obligations is not a check
		fmt.Printf("INCONCLUSIVE property=%s: fewer than 2 non-trivial obligations discharged\n", *prop)
		exit = 2
	}
	if len(samples) == 0 {
		// never emit a null / empty sample list: name what was attempted
		for i := range jobs {
			samples = append(samples, map[string]interface{}{"harness": specs[i].Name, "lemma": jobs[i].ID, "note": "no obligation result available for this harness in this run"})
		}
	}
	ev := map[string]interface{}{
		"property_id": *prop, "tier": *tier, "seed": seed, "level": "model_checking", "wall_s": wall, "violations": violations,
		"assumptions": sortedKeys(notes),
		"coverage": map[string]interface{}{
			"evaluations":         max(evals, 1),
			"distinct_nontrivial": nontrivial,
			"rule": "evaluations = SMT queries issued (group query per harness, individual queries on sat/unknown, one vacuity witness per harness). " +
				"distinct_nontrivial = distinct (harness, label, site) obligations — vAssert, every reachable Go panic site, every unwinding assertion — that survived constant folding, were answered unsat by the solver, and whose harness vacuity witness was sat.",
			"samples":                  samples,
			"exhaustive":               false,
			"obligations":              obligations,
			"discharged":               discharged,
			"inconclusive":             inconclusive,
			"asserts_decided_by_term_simplifier": folded,
			"solver_time_s":            solverS,
			"functions_encoded":        funcs,
			"stubs":                    stubs,
			"unwinding_bounds_reached": unwind,
			"harnesses":                harnessSumm,
			"checker_cmd":              "bin/gosmt check --property " + *prop + " --tier " + *tier,
			"explanation":              "Go SSA of /repo's current tree is symbolically executed (calls inlined, loops unrolled to the stated bound, join points merged with ite) and every obligation is decided by z3 for all values of the symbolic inputs within the bounds; nothing is claimed outside them.",
		},
	}
	if !*noEvidence {
		os.MkdirAll(filepath.Join(verifRoot, "evidence"), 0o755)
		writeJSON(filepath.Join(verifRoot, "evidence", *prop+".json"), ev)
	}
	fmt.Printf("property=%s tier=%s harnesses=%d obligations=%d discharged=%d inconclusive=%d violations=%d queries=%d solver_s=%.1f wall_s=%.1f exit=%d\n",
		*prop, *tier, len(jobs), obligations, discharged, inconclusive, violations, evals, solverS, wall, exit)
	return exit
}

func sortedKeys(m map[string]bool) []string {
	out := []string{}
	for k := range m {
		out = append(out, k)
	}
	sort.Strings(out)
	return out
}
