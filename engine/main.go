package main

import (
	"encoding/json"
	"flag"
	"fmt"
	"os"
	"runtime/pprof"
	"time"
)

func main() {
	if len(os.Args) < 2 {
		fmt.Fprintln(os.Stderr, "usage: gosmt check|run-harness|replay|list ...")
		os.Exit(2)
	}
	switch os.Args[1] {
	case "run-harness":
		fs := flag.NewFlagSet("run-harness", flag.ExitOnError)
		specFile := fs.String("spec", "", "JSON HarnessSpec file")
		out := fs.String("out", "", "result JSON path (default stdout)")
		fs.Parse(os.Args[2:])
		b, err := os.ReadFile(*specFile)
		if err != nil {
			fmt.Fprintln(os.Stderr, err)
			os.Exit(2)
		}
		var spec HarnessSpec
		if err := json.Unmarshal(b, &spec); err != nil {
			fmt.Fprintln(os.Stderr, err)
			os.Exit(2)
		}
		if p := os.Getenv("GOSMT_PROF"); p != "" {
			f, _ := os.Create(p)
			pprof.StartCPUProfile(f)
			defer pprof.StopCPUProfile()
			go func() {
				time.Sleep(60 * time.Second)
				pprof.StopCPUProfile()
				f.Close()
				os.Exit(9)
			}()
		}
		res := runHarness(&spec)
		if *out != "" {
			writeJSON(*out, res)
		} else {
			j, _ := json.MarshalIndent(res, "", " ")
			fmt.Println(string(j))
		}
	case "check":
		os.Exit(cmdCheck(os.Args[2:]))
	case "replay":
		os.Exit(cmdReplay(os.Args[2:]))
	case "list":
		cmdList()
	case "spec": // gosmt spec <property> <lemma-id-or-harness-name>: the registered spec as JSON
		for _, d := range registry[os.Args[2]] {
			if d.ID == os.Args[3] || d.Spec.Name == os.Args[3] {
				j, _ := json.Marshal(d.Spec)
				fmt.Println(string(j))
				return
			}
		}
		os.Exit(2)
	default:
		fmt.Fprintln(os.Stderr, "unknown command", os.Args[1])
		os.Exit(2)
	}
}
