package main

import (
	"bufio"
	"fmt"
	"io"
	"os/exec"
	"strings"
	"sync"
	"time"
)

// Solver is one long-lived SMT solver process driven over stdin/stdout.
type Solver struct {
	name   string
	cmd    *exec.Cmd
	in     io.WriteCloser
	out    *bufio.Reader
	seq    int
	mu     sync.Mutex
	dead   bool
	Time   time.Duration
	Querys int
	log    io.Writer
}

func solverArgs(name string) []string {
	switch name {
	case "z3", "z3-new":
		return []string{name, "-in", "-smt2"}
	case "cvc5":
		return []string{"cvc5", "--incremental", "--lang=smt2", "--produce-models"}
	case "cvc5-int":
		return []string{"cvc5", "--incremental", "--lang=smt2", "--produce-models", "--solve-bv-as-int=sum"}
	}
	return []string{name}
}

func StartSolver(name string, log io.Writer, timeout time.Duration) (*Solver, error) {
	a := solverArgs(name)
	if strings.HasPrefix(name, "cvc5") && timeout > 0 {
		a = append(a, fmt.Sprintf("--tlimit-per=%d", timeout.Milliseconds()))
	}
	cmd := exec.Command(a[0], a[1:]...)
	in, err := cmd.StdinPipe()
	if err != nil {
		return nil, err
	}
	out, err := cmd.StdoutPipe()
	if err != nil {
		return nil, err
	}
	cmd.Stderr = cmd.Stdout
	if err := cmd.Start(); err != nil {
		return nil, err
	}
	s := &Solver{name: name, cmd: cmd, in: in, out: bufio.NewReaderSize(out, 1<<20), log: log}
	if strings.HasPrefix(name, "cvc5") {
		s.Send("(set-logic ALL)\n")
	} else {
		s.Send("(set-option :produce-models true)\n")
	}
	return s, nil
}

func (s *Solver) Send(text string) {
	if s.dead {
		return
	}
	if s.log != nil {
		io.WriteString(s.log, text)
	}
	io.WriteString(s.in, text)
}

// roundTrip sends text followed by an echo marker and returns all lines
// printed before the marker. A timeout kills the solver.
func (s *Solver) roundTrip(text string, timeout time.Duration) ([]string, error) {
	if s.dead {
		return nil, fmt.Errorf("solver dead")
	}
	s.seq++
	marker := fmt.Sprintf("DONE-%d", s.seq)
	s.Send(text)
	s.Send(fmt.Sprintf("(echo \"%s\")\n", marker))
	type res struct {
		lines []string
		err   error
	}
	ch := make(chan res, 1)
	go func() {
		var lines []string
		for {
			ln, err := s.out.ReadString('\n')
			if err != nil {
				ch <- res{lines, err}
				return
			}
			ln = strings.TrimSpace(ln)
			if strings.Trim(ln, "\"") == marker {
				ch <- res{lines, nil}
				return
			}
			if ln != "" {
				lines = append(lines, ln)
			}
		}
	}()
	select {
	case r := <-ch:
		return r.lines, r.err
	case <-time.After(timeout):
		s.Kill()
		return nil, fmt.Errorf("timeout after %v", timeout)
	}
}

func (s *Solver) Kill() {
	if !s.dead {
		s.dead = true
		s.cmd.Process.Kill()
		s.cmd.Wait()
	}
}

func (s *Solver) Close() {
	if !s.dead {
		s.Send("(exit)\n")
		s.in.Close()
		done := make(chan struct{})
		go func() { s.cmd.Wait(); close(done) }()
		select {
		case <-done:
		case <-time.After(2 * time.Second):
			s.cmd.Process.Kill()
		}
		s.dead = true
	}
}

// CheckSat returns "sat", "unsat", "unknown" or "error: ...".
func (s *Solver) CheckSat(timeout time.Duration) string {
	return s.CheckSatCmd("(check-sat)\n", timeout)
}

func (s *Solver) CheckSatCmd(cmd string, timeout time.Duration) string {
	t0 := time.Now()
	defer func() { s.Time += time.Since(t0); s.Querys++ }()
	pre := ""
	if !strings.HasPrefix(s.name, "cvc5") {
		pre = fmt.Sprintf("(set-option :timeout %d)\n", timeout.Milliseconds())
	} else {
		pre = fmt.Sprintf("(set-option :tlimit-per %d)\n", timeout.Milliseconds())
	}
	lines, err := s.roundTrip(pre+cmd, timeout+10*time.Second)
	if err != nil {
		return "unknown (" + err.Error() + ")"
	}
	verdict := ""
	for _, l := range lines {
		if strings.HasPrefix(l, "(error") {
			return "error: " + l
		}
		if l == "sat" || l == "unsat" || l == "unknown" || l == "timeout" {
			verdict = l
		}
	}
	if verdict == "" {
		return "error: no verdict: " + strings.Join(lines, " | ")
	}
	if verdict == "timeout" {
		return "unknown (timeout)"
	}
	return verdict
}

// Exec sends definitions/assertions and reports any error line.
func (s *Solver) Exec(text string) error {
	lines, err := s.roundTrip(text, 120*time.Second)
	if err != nil {
		return err
	}
	for _, l := range lines {
		if strings.HasPrefix(l, "(error") {
			return fmt.Errorf("%s", l)
		}
	}
	return nil
}

// GetValues evaluates expressions in the current model; returns raw strings.
func (s *Solver) GetValues(exprs []string) ([]string, error) {
	out := make([]string, len(exprs))
	// one get-value per expression keeps parsing trivial
	for i := 0; i < len(exprs); i += 64 {
		j := i + 64
		if j > len(exprs) {
			j = len(exprs)
		}
		var sb strings.Builder
		for _, ex := range exprs[i:j] {
			fmt.Fprintf(&sb, "(get-value (%s))\n", ex)
		}
		lines, err := s.roundTrip(sb.String(), 60*time.Second)
		if err != nil {
			return nil, err
		}
		joined := strings.Join(lines, " ")
		vals := splitTopLevel(joined)
		if len(vals) != j-i {
			return nil, fmt.Errorf("get-value: expected %d answers, got %d: %s", j-i, len(vals), joined)
		}
		for k, v := range vals {
			// v is "((expr value))"
			out[i+k] = lastAtom(v)
		}
	}
	return out, nil
}

func splitTopLevel(s string) []string {
	var out []string
	depth, start := 0, -1
	inBar := false
	for i, c := range s {
		if c == '|' {
			inBar = !inBar
		}
		if inBar {
			continue
		}
		switch c {
		case '(':
			if depth == 0 {
				start = i
			}
			depth++
		case ')':
			depth--
			if depth == 0 && start >= 0 {
				out = append(out, s[start:i+1])
				start = -1
			}
		}
	}
	return out
}

// lastAtom extracts the value literal (#x.., #b.., true, false) at the end
// of "((expr value))".
func lastAtom(s string) string {
	s = strings.TrimSpace(s)
	s = strings.TrimSuffix(s, "))")
	i := strings.LastIndexAny(s, " (")
	if strings.HasSuffix(s, ")") { // (_ bvN w)
		j := strings.LastIndex(s, "(_ bv")
		if j >= 0 {
			return s[j:]
		}
	}
	return strings.TrimSpace(s[i+1:])
}

func parseBV(s string) (uint64, bool) {
	s = strings.TrimSpace(s)
	var v uint64
	switch {
	case strings.HasPrefix(s, "#x"):
		_, err := fmt.Sscanf(s[2:], "%x", &v)
		return v, err == nil
	case strings.HasPrefix(s, "#b"):
		for _, c := range s[2:] {
			v = v<<1 | uint64(c-'0')
		}
		return v, true
	case s == "true":
		return 1, true
	case s == "false":
		return 0, true
	case strings.HasPrefix(s, "(_ bv"):
		_, err := fmt.Sscanf(s, "(_ bv%d", &v)
		return v, err == nil
	}
	return 0, false
}
