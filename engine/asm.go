package main

// A symbolic interpreter for the tiny Plan-9 amd64 assembly subset used by
// pkg/mathext/bit_amd64.s: MOVQ, PDEPQ, PEXTQ, RET over registers and
// FP-relative argument/result slots.  The instruction semantics are the
// Intel SDM pseudo-code of PDEP/PEXT (validated against this CPU by the
// translator-validation test of C17).

import (
	"fmt"
	"go/token"
	"os"
	"path/filepath"
	"regexp"
	"strconv"
	"strings"

	"golang.org/x/tools/go/ssa"
)

type asmFunc struct {
	name  string
	lines [][]string // mnemonic + operands
}

func parseAsm(path string) (map[string]*asmFunc, error) {
	b, err := os.ReadFile(path)
	if err != nil {
		return nil, err
	}
	out := map[string]*asmFunc{}
	var cur *asmFunc
	textRe := regexp.MustCompile(`^TEXT\s+·(\w+)\(SB\)`)
	for _, ln := range strings.Split(string(b), "\n") {
		if i := strings.Index(ln, "//"); i >= 0 {
			ln = ln[:i]
		}
		ln = strings.TrimSpace(ln)
		if ln == "" || strings.HasPrefix(ln, "#") {
			continue
		}
		if m := textRe.FindStringSubmatch(ln); m != nil {
			cur = &asmFunc{name: m[1]}
			out[m[1]] = cur
			continue
		}
		if cur == nil {
			return nil, fmt.Errorf("instruction outside TEXT: %q", ln)
		}
		f := strings.Fields(ln)
		mn := f[0]
		rest := strings.TrimSpace(strings.TrimPrefix(ln, mn))
		var ops []string
		if rest != "" {
			for _, o := range strings.Split(rest, ",") {
				ops = append(ops, strings.TrimSpace(o))
			}
		}
		cur.lines = append(cur.lines, append([]string{mn}, ops...))
	}
	return out, nil
}

// sdmPDEP / sdmPEXT: Intel SDM pseudo-code, bit by bit, k counting consumed bits.
func sdmPDEP(src, msk *Term) *Term {
	res := Const(64, 0)
	k := Const(64, 0)
	one := Const(64, 1)
	for m := 0; m < 64; m++ {
		mb := Eq(Extract(msk, m, m), Const(1, 1))
		bit := BAnd(Lshr(src, k), one) // TEMP[k]
		res = Ite(mb, BOr(res, Shl(bit, Const(64, uint64(m)))), res)
		k = Ite(mb, Add(k, one), k)
	}
	return res
}

func sdmPEXT(src, msk *Term) *Term {
	res := Const(64, 0)
	k := Const(64, 0)
	one := Const(64, 1)
	for m := 0; m < 64; m++ {
		mb := Eq(Extract(msk, m, m), Const(1, 1))
		bit := Zext(Extract(src, m, m), 63)
		res = Ite(mb, BOr(res, Shl(bit, k)), res)
		k = Ite(mb, Add(k, one), k)
	}
	return res
}

var fpSlot = regexp.MustCompile(`^(\w+)\+(\d+)\(FP\)$`)

// execAsm interprets fn with arguments laid out at FP offsets 0,8,... and
// returns the value stored to the result slot at offset 8*nargs.
func execAsm(f *asmFunc, args []*Term) (*Term, error) {
	regs := map[string]*Term{}
	slots := map[int]*Term{}
	for i, a := range args {
		slots[8*i] = a
	}
	read := func(op string) (*Term, error) {
		if m := fpSlot.FindStringSubmatch(op); m != nil {
			off, _ := strconv.Atoi(m[2])
			v, ok := slots[off]
			if !ok {
				return nil, fmt.Errorf("read of unwritten slot %s", op)
			}
			return v, nil
		}
		if strings.HasPrefix(op, "$") {
			n, err := strconv.ParseInt(op[1:], 0, 64)
			if err != nil {
				return nil, err
			}
			return Const(64, uint64(n)), nil
		}
		v, ok := regs[op]
		if !ok {
			return nil, fmt.Errorf("read of undefined register %s", op)
		}
		return v, nil
	}
	write := func(op string, v *Term) error {
		if m := fpSlot.FindStringSubmatch(op); m != nil {
			off, _ := strconv.Atoi(m[2])
			slots[off] = v
			return nil
		}
		if !regexp.MustCompile(`^[A-Z0-9]+$`).MatchString(op) {
			return fmt.Errorf("unsupported destination %s", op)
		}
		regs[op] = v
		return nil
	}
	for _, ln := range f.lines {
		switch ln[0] {
		case "MOVQ":
			if len(ln) != 3 {
				return nil, fmt.Errorf("MOVQ arity")
			}
			v, err := read(ln[1])
			if err != nil {
				return nil, err
			}
			if err := write(ln[2], v); err != nil {
				return nil, err
			}
		case "PDEPQ", "PEXTQ":
			// Go operand order (reverse of Intel): OP mask, src, dst
			if len(ln) != 4 {
				return nil, fmt.Errorf("%s arity", ln[0])
			}
			msk, err := read(ln[1])
			if err != nil {
				return nil, err
			}
			src, err := read(ln[2])
			if err != nil {
				return nil, err
			}
			var r *Term
			if ln[0] == "PDEPQ" {
				r = sdmPDEP(src, msk)
			} else {
				r = sdmPEXT(src, msk)
			}
			if err := write(ln[3], r); err != nil {
				return nil, err
			}
		case "RET":
			v, ok := slots[8*len(args)]
			if !ok {
				return nil, fmt.Errorf("RET without a stored result")
			}
			return v, nil
		default:
			return nil, fmt.Errorf("unsupported instruction %s", ln[0])
		}
	}
	return nil, fmt.Errorf("fell off the end of %s", f.name)
}

func init() {
	asmCall := func(sym string) intrinsic {
		return func(e *Engine, fr *frame, fn *ssa.Function, args []Value, g *Term, pos token.Pos) Value {
			fs, err := parseAsm(filepath.Join(repoRoot, "pkg/mathext/bit_amd64.s"))
			if err != nil {
				panic(unsupported("asm: " + err.Error()))
			}
			f, ok := fs[sym]
			if !ok {
				panic(unsupported("asm: no TEXT for " + sym))
			}
			var ts []*Term
			for _, a := range args {
				ts = append(ts, a.(*Term))
			}
			r, err := execAsm(f, ts)
			if err != nil {
				panic(unsupported("asm " + sym + ": " + err.Error()))
			}
			return r
		}
	}
	intrinsics["github.com/enfein/mieru/v3/pkg/mathext.pdepBMI2"] = asmCall("pdepBMI2")
	intrinsics["github.com/enfein/mieru/v3/pkg/mathext.pextBMI2"] = asmCall("pextBMI2")
}
