package main

import (
	"fmt"
	"go/types"
	"strings"

	"golang.org/x/tools/go/ssa"
)

// Value is one of:
//   *Term      scalar (bool, integers, floats as opaque BV64)
//   *StructV   struct / tuple
//   *ArrV      array of scalars, held as one SMT array term
//   *VecV      array of non-scalars, held element-wise
//   *PtrV      pointer (guarded set of locations)
//   *SliceV    slice
//   *StrV      string
//   *MapV      map reference
//   *IfaceV    interface value
//   *FuncV     function value
//   *ChanV     channel reference
type Value interface{}

type StructV struct{ F []Value }

type ArrV struct {
	T  *Term // Array (BV64) (BV ew)
	N  *Term // length (BV64)
	EW int
	Signed bool
}

type VecV struct{ E []Value }

type PathElem struct {
	Field int
	Idx   *Term // non-nil: array/vector index (BV64)
}

type Object struct {
	id   int
	name string
	typ  types.Type
	val  Value
	// for map objects
	mp *MapData
	ch *ChanData
}

type PtrTarget struct {
	G    *Term
	Obj  *Object
	Path []PathElem
}

// NonNil: the pointer is the address of a local/heap allocation (ssa.Alloc)
// in every alternative - merged alternatives come from different unrolled
// iterations of the same allocation site.  By SSA dominance a use of such a
// register is always preceded by one of the allocations, so it is never nil
// where it is read, although the disjunction of the target guards is not
// syntactically true.
type PtrV struct {
	T      []PtrTarget
	NonNil bool
}

type SliceV struct {
	Arr           *PtrV // points at an ArrV / VecV location
	Off, Len, Cap *Term // BV64
}

type StrV struct {
	Len   *Term // BV64
	Data  *Term // Array BV64 BV8
	Max   int   // concrete upper bound of Len
	Lit   string
	IsLit bool // the string is the constant Lit
}

type MapEntry struct {
	G   *Term // entry present
	Key Value
	Val Value
}

type MapData struct {
	entries []MapEntry
	keyT    types.Type
	valT    types.Type
}

type MapV struct{ T []PtrTarget } // targets with empty paths; Obj.mp set

type ChanData struct {
	closed *Term // Bool
	count  *Term // BV64 number of buffered elements
	cap    int
	elems  []Value // FIFO model for small buffers (concrete positions)
	elemT  types.Type
}

type ChanV struct{ T []PtrTarget }

type IfaceAlt struct {
	G   *Term
	Typ types.Type
	Val Value
}

type IfaceV struct{ A []IfaceAlt }

type FuncAlt struct {
	G     *Term
	Fn    *ssa.Function
	Binds []Value
	// bound method closure on an interface/receiver: Recv != nil
	Recv    Value
	Builtin string
}

type FuncV struct{ A []FuncAlt }

var nilPtr = &PtrV{}

// ---- type helpers ----

func intWidth(t types.Type) (w int, signed bool, ok bool) {
	b, isB := t.Underlying().(*types.Basic)
	if !isB {
		return 0, false, false
	}
	switch b.Kind() {
	case types.Int8:
		return 8, true, true
	case types.Int16:
		return 16, true, true
	case types.Int32:
		return 32, true, true
	case types.Int64, types.Int:
		return 64, true, true
	case types.Uint8:
		return 8, false, true
	case types.Uint16:
		return 16, false, true
	case types.Uint32:
		return 32, false, true
	case types.Uint64, types.Uint, types.Uintptr:
		return 64, false, true
	case types.UntypedInt, types.UntypedRune:
		return 64, true, true
	case types.Float64, types.UntypedFloat:
		return 64, false, true // opaque
	case types.Float32:
		return 32, false, true
	case types.UnsafePointer:
		return 64, false, true
	}
	return 0, false, false
}

func isFloat(t types.Type) bool {
	b, ok := t.Underlying().(*types.Basic)
	return ok && b.Info()&types.IsFloat != 0
}

func isBoolT(t types.Type) bool {
	b, ok := t.Underlying().(*types.Basic)
	return ok && b.Info()&types.IsBoolean != 0
}

func isStringT(t types.Type) bool {
	b, ok := t.Underlying().(*types.Basic)
	return ok && b.Info()&types.IsString != 0
}

func isScalarT(t types.Type) bool {
	if isBoolT(t) {
		return false // bools are scalar terms but not array-packable
	}
	_, _, ok := intWidth(t)
	return ok
}

var objCounter int

func newObject(name string, typ types.Type, v Value) *Object {
	objCounter++
	return &Object{id: objCounter, name: fmt.Sprintf("%s#%d", name, objCounter), typ: typ, val: v}
}

func zeroArr(ew int, n *Term, signed bool) *ArrV {
	return &ArrV{T: ConstArr(64, ew, Const(ew, 0)), N: n, EW: ew, Signed: signed}
}

func c64(v int64) *Term { return Const(64, uint64(v)) }

func zeroValue(t types.Type) Value {
	switch u := t.Underlying().(type) {
	case *types.Basic:
		if u.Info()&types.IsBoolean != 0 {
			return tFalse
		}
		if u.Info()&types.IsString != 0 {
			return &StrV{Len: c64(0), Data: ConstArr(64, 8, Const(8, 0)), Max: 0}
		}
		if u.Kind() == types.UntypedNil {
			return nilPtr
		}
		w, _, ok := intWidth(t)
		if !ok {
			panic(unsupported("zero value of basic type " + t.String()))
		}
		return Const(w, 0)
	case *types.Struct:
		s := &StructV{F: make([]Value, u.NumFields())}
		for i := range s.F {
			s.F[i] = zeroValue(u.Field(i).Type())
		}
		return s
	case *types.Array:
		if isScalarT(u.Elem()) {
			w, sg, _ := intWidth(u.Elem())
			return zeroArr(w, c64(u.Len()), sg)
		}
		v := &VecV{E: make([]Value, u.Len())}
		for i := range v.E {
			v.E[i] = zeroValue(u.Elem())
		}
		return v
	case *types.Pointer:
		return nilPtr
	case *types.Slice:
		return &SliceV{Arr: nilPtr, Off: c64(0), Len: c64(0), Cap: c64(0)}
	case *types.Map:
		return &MapV{}
	case *types.Chan:
		return &ChanV{}
	case *types.Interface:
		return &IfaceV{}
	case *types.Signature:
		return &FuncV{}
	case *types.Tuple:
		s := &StructV{F: make([]Value, u.Len())}
		for i := range s.F {
			s.F[i] = zeroValue(u.At(i).Type())
		}
		return s
	}
	panic(unsupported("zero value of " + t.String()))
}

// ---- merging: ite(g, a, b) on values ----

func mergeTargets(g *Term, a, b []PtrTarget) []PtrTarget {
	var out []PtrTarget
	ng := Not(g)
	add := func(t PtrTarget, gg *Term) {
		tg := And(t.G, gg)
		if tg.IsFalse() {
			return
		}
		for i := range out {
			if out[i].Obj == t.Obj && samePath(out[i].Path, t.Path) {
				out[i].G = Or(out[i].G, tg)
				return
			}
		}
		out = append(out, PtrTarget{G: tg, Obj: t.Obj, Path: t.Path})
	}
	for _, t := range a {
		add(t, g)
	}
	for _, t := range b {
		add(t, ng)
	}
	return out
}

func samePath(a, b []PathElem) bool {
	if len(a) != len(b) {
		return false
	}
	for i := range a {
		if a[i].Field != b[i].Field || a[i].Idx != b[i].Idx {
			return false
		}
	}
	return true
}

func merge(g *Term, a, b Value) Value {
	if g.IsTrue() || b == nil {
		return a
	}
	if g.IsFalse() || a == nil {
		return b
	}
	switch x := a.(type) {
	case *Term:
		y, ok := b.(*Term)
		if !ok {
			if p, isP := b.(*PtrV); isP && x.IsConst() && x.val == 0 {
				// unsafe.Pointer cell (atomic.Pointer) still holding its zero value
				return &PtrV{T: mergeTargets(g, nil, p.T)}
			}
			panic(unsupported(fmt.Sprintf("merge: term with %T", b)))
		}
		return Ite(g, x, y)
	case *StructV:
		y := b.(*StructV)
		if x == y {
			return x
		}
		out := &StructV{F: make([]Value, len(x.F))}
		for i := range x.F {
			out.F[i] = merge(g, x.F[i], y.F[i])
		}
		return out
	case *ArrV:
		y := b.(*ArrV)
		if x == y {
			return x
		}
		return &ArrV{T: Ite(g, x.T, y.T), N: Ite(g, x.N, y.N), EW: x.EW, Signed: x.Signed}
	case *VecV:
		y := b.(*VecV)
		if x == y {
			return x
		}
		if len(x.E) != len(y.E) {
			panic(unsupported("merge: vectors of different length"))
		}
		out := &VecV{E: make([]Value, len(x.E))}
		for i := range x.E {
			out.E[i] = merge(g, x.E[i], y.E[i])
		}
		return out
	case *PtrV:
		y, ok := b.(*PtrV)
		if !ok {
			if t, isT := b.(*Term); isT && t.IsConst() && t.val == 0 {
				y = nilPtr // unsafe.Pointer cell holding nil
			} else {
				panic(unsupported(fmt.Sprintf("merge: pointer with %T", b)))
			}
		}
		if x == y {
			return x
		}
		return &PtrV{T: mergeTargets(g, x.T, y.T), NonNil: x.NonNil && y.NonNil}
	case *SliceV:
		y := b.(*SliceV)
		if x == y {
			return x
		}
		return &SliceV{Arr: merge(g, x.Arr, y.Arr).(*PtrV), Off: Ite(g, x.Off, y.Off), Len: Ite(g, x.Len, y.Len), Cap: Ite(g, x.Cap, y.Cap)}
	case *StrV:
		y := b.(*StrV)
		if x == y {
			return x
		}
		mx := x.Max
		if y.Max > mx {
			mx = y.Max
		}
		return &StrV{Len: Ite(g, x.Len, y.Len), Data: Ite(g, x.Data, y.Data), Max: mx}
	case *MapV:
		y := b.(*MapV)
		return &MapV{T: mergeTargets(g, x.T, y.T)}
	case *ChanV:
		y := b.(*ChanV)
		return &ChanV{T: mergeTargets(g, x.T, y.T)}
	case *IfaceV:
		y := b.(*IfaceV)
		if x == y {
			return x
		}
		return mergeIface(g, x, y)
	case *FuncV:
		y := b.(*FuncV)
		if x == y {
			return x
		}
		out := &FuncV{}
		ng := Not(g)
		for _, al := range x.A {
			al.G = And(al.G, g)
			if !al.G.IsFalse() {
				out.A = append(out.A, al)
			}
		}
		for _, al := range y.A {
			al.G = And(al.G, ng)
			if !al.G.IsFalse() {
				out.A = append(out.A, al)
			}
		}
		return out
	}
	panic(unsupported(fmt.Sprintf("merge of %T", a)))
}

func mergeIface(g *Term, x, y *IfaceV) *IfaceV {
	out := &IfaceV{}
	ng := Not(g)
	add := func(al IfaceAlt, gg *Term) {
		ag := And(al.G, gg)
		if ag.IsFalse() {
			return
		}
		for i := range out.A {
			if types.Identical(out.A[i].Typ, al.Typ) {
				// same dynamic type: merge the payload
				out.A[i].Val = merge(ag, al.Val, out.A[i].Val)
				out.A[i].G = Or(out.A[i].G, ag)
				return
			}
		}
		out.A = append(out.A, IfaceAlt{G: ag, Typ: al.Typ, Val: al.Val})
	}
	for _, al := range x.A {
		add(al, g)
	}
	for _, al := range y.A {
		add(al, ng)
	}
	return out
}

// ---- pointer helpers ----

func ptrTo(o *Object, path ...PathElem) *PtrV {
	return &PtrV{T: []PtrTarget{{G: tTrue, Obj: o, Path: path}}}
}

func (p *PtrV) isNil() *Term {
	if p.NonNil {
		return tFalse
	}
	var gs []*Term
	for _, t := range p.T {
		gs = append(gs, t.G)
	}
	return Not(Or(gs...))
}

func (p *PtrV) extend(e PathElem) *PtrV {
	out := &PtrV{T: make([]PtrTarget, len(p.T)), NonNil: p.NonNil}
	for i, t := range p.T {
		np := make([]PathElem, len(t.Path)+1)
		copy(np, t.Path)
		np[len(t.Path)] = e
		out.T[i] = PtrTarget{G: t.G, Obj: t.Obj, Path: np}
	}
	return out
}

func pathStr(p []PathElem) string {
	var sb strings.Builder
	for _, e := range p {
		if e.Idx != nil {
			if e.Idx.IsConst() {
				fmt.Fprintf(&sb, "[%d]", e.Idx.val)
			} else {
				sb.WriteString("[?]")
			}
		} else {
			fmt.Fprintf(&sb, ".%d", e.Field)
		}
	}
	return sb.String()
}

// readPath reads the value at path inside v.
func readPath(v Value, path []PathElem) Value {
	if len(path) == 0 {
		return v
	}
	e := path[0]
	switch x := v.(type) {
	case *StructV:
		if e.Idx != nil {
			panic(unsupported("index into struct"))
		}
		return readPath(x.F[e.Field], path[1:])
	case *ArrV:
		if e.Idx == nil || len(path) != 1 {
			panic(unsupported("bad path into scalar array"))
		}
		return Select(x.T, e.Idx)
	case *VecV:
		if e.Idx == nil {
			panic(unsupported("field of vector"))
		}
		if e.Idx.IsConst() {
			k := int(e.Idx.val)
			if k >= len(x.E) {
				// out of bounds (an obligation was recorded by the caller)
				if len(x.E) == 0 {
					return nil
				}
				k = 0
			}
			return readPath(x.E[k], path[1:])
		}
		if len(x.E) == 0 {
			return nil
		}
		var out Value
		for k := len(x.E) - 1; k >= 0; k-- {
			ev := readPath(x.E[k], path[1:])
			if out == nil {
				out = ev
			} else {
				out = merge(Eq(e.Idx, c64(int64(k))), ev, out)
			}
		}
		return out
	}
	panic(unsupported(fmt.Sprintf("readPath through %T", v)))
}

// writePath returns v with the location at path replaced by ite(g, nv, old).
func writePath(v Value, path []PathElem, g *Term, nv Value) Value {
	if len(path) == 0 {
		return merge(g, nv, v)
	}
	e := path[0]
	switch x := v.(type) {
	case *StructV:
		out := &StructV{F: make([]Value, len(x.F))}
		copy(out.F, x.F)
		out.F[e.Field] = writePath(x.F[e.Field], path[1:], g, nv)
		return out
	case *ArrV:
		if e.Idx == nil || len(path) != 1 {
			panic(unsupported("bad path into scalar array"))
		}
		nt := nv.(*Term)
		return &ArrV{T: Store(x.T, e.Idx, Ite(g, nt, Select(x.T, e.Idx))), N: x.N, EW: x.EW, Signed: x.Signed}
	case *VecV:
		out := &VecV{E: make([]Value, len(x.E))}
		copy(out.E, x.E)
		if e.Idx.IsConst() {
			k := int(e.Idx.val)
			if k < len(x.E) {
				out.E[k] = writePath(x.E[k], path[1:], g, nv)
			}
			return out
		}
		for k := range x.E {
			out.E[k] = writePath(x.E[k], path[1:], And(g, Eq(e.Idx, c64(int64(k)))), nv)
		}
		return out
	}
	panic(unsupported(fmt.Sprintf("writePath through %T", v)))
}

type unsupportedErr struct{ msg string }

func (u unsupportedErr) Error() string { return "unsupported: " + u.msg }
func unsupported(msg string) unsupportedErr { return unsupportedErr{msg} }

// concrete string helper
func (s *StrV) concrete() (string, bool) {
	if s.IsLit {
		return s.Lit, true
	}
	if !s.Len.IsConst() {
		return "", false
	}
	n := int(s.Len.val)
	b := make([]byte, n)
	for i := 0; i < n; i++ {
		c := Select(s.Data, c64(int64(i)))
		if !c.IsConst() {
			return "", false
		}
		b[i] = byte(c.val)
	}
	return string(b), true
}

func strConst(s string) *StrV {
	d := ConstArr(64, 8, Const(8, 0))
	for i := 0; i < len(s); i++ {
		d = Store(d, c64(int64(i)), Const(8, uint64(s[i])))
	}
	return &StrV{Len: c64(int64(len(s))), Data: d, Max: len(s), Lit: s, IsLit: true}
}
