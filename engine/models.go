package main

// Engine-level models of library functions whose real bodies are assembly,
// runtime-internal, or irrelevant to every property (formatting, logging,
// locking).  Each use is logged in the evidence under "stubs".

import (
	"net"
	"fmt"
	"go/token"
	"go/types"
	"strings"

	"golang.org/x/tools/go/ssa"
)

type intrinsic func(e *Engine, fr *frame, fn *ssa.Function, args []Value, g *Term, pos token.Pos) Value

var intrinsics = map[string]intrinsic{}

var foreignGlobals = map[string]func(e *Engine, t types.Type) Value{}

var opaqueMethods = map[types.Type]func(e *Engine, fr *frame, al IfaceAlt, method string, args []Value, g *Term, pos token.Pos) Value{}

func newOpaqueNamed(name string) *types.Named {
	return types.NewNamed(types.NewTypeName(token.NoPos, nil, name, nil), types.NewStruct(nil, nil), nil)
}

var opaqueErrT types.Type = newOpaqueNamed("verif.opaqueError")

var nOpaque int

// opaqueError builds a non-nil error value: struct{id BV64; wrapped error}.
func (e *Engine) opaqueError(what string, wrapped Value) Value {
	nOpaque++
	id := Const(64, uint64(1000+nOpaque))
	if wrapped == nil {
		wrapped = &IfaceV{}
	}
	return &IfaceV{A: []IfaceAlt{{G: tTrue, Typ: opaqueErrT, Val: &StructV{F: []Value{id, wrapped}}}}}
}

func (e *Engine) opaqueString(tag string, args ...*Term) *StrV {
	// an uninterpreted string of length <= 32 determined by its arguments
	nOpaque++
	var l, d *Term
	if len(args) == 0 {
		l = Fresh("str.len."+tag, BV(64))
		d = Fresh("str.data."+tag, ArrS(64, 8))
	} else {
		l = Apply("strlen."+tag, BV(64), args...)
		d = Fresh("str.data."+tag, ArrS(64, 8))
	}
	e.assume(Ule(l, c64(32)))
	return &StrV{Len: l, Data: d, Max: 32}
}

func noop(e *Engine, fr *frame, fn *ssa.Function, args []Value, g *Term, pos token.Pos) Value {
	return zeroResults(fn.Signature)
}

func init() {
	for _, n := range []string{
		"(*sync.Mutex).Lock", "(*sync.Mutex).Unlock", "(*sync.RWMutex).Lock", "(*sync.RWMutex).Unlock",
		"(*sync.RWMutex).RLock", "(*sync.RWMutex).RUnlock", "(*sync.WaitGroup).Add", "(*sync.WaitGroup).Done",
		"(*sync.WaitGroup).Wait", "runtime.Gosched", "runtime.KeepAlive", "(*sync.Cond).Broadcast", "(*sync.Cond).Signal",
		"runtime.SetFinalizer", "time.Sleep",
	} {
		intrinsics[n] = noop
	}
	intrinsics["(*sync.Mutex).TryLock"] = func(e *Engine, fr *frame, fn *ssa.Function, args []Value, g *Term, pos token.Pos) Value {
		return tTrue
	}

	// ---- atomics (function forms; the typed wrappers run from their SSA) ----
	for _, ty := range []string{"Int32", "Int64", "Uint32", "Uint64", "Uintptr"} {
		intrinsics["sync/atomic.Load"+ty] = func(e *Engine, fr *frame, fn *ssa.Function, args []Value, g *Term, pos token.Pos) Value {
			return e.load(fr, args[0].(*PtrV), g, pos)
		}
		intrinsics["sync/atomic.Store"+ty] = func(e *Engine, fr *frame, fn *ssa.Function, args []Value, g *Term, pos token.Pos) Value {
			e.store(fr, args[0].(*PtrV), args[1], g, pos)
			return nil
		}
		intrinsics["sync/atomic.Add"+ty] = func(e *Engine, fr *frame, fn *ssa.Function, args []Value, g *Term, pos token.Pos) Value {
			p := args[0].(*PtrV)
			nv := Add(e.load(fr, p, g, pos).(*Term), args[1].(*Term))
			e.store(fr, p, nv, g, pos)
			return nv
		}
		intrinsics["sync/atomic.Swap"+ty] = func(e *Engine, fr *frame, fn *ssa.Function, args []Value, g *Term, pos token.Pos) Value {
			p := args[0].(*PtrV)
			old := e.load(fr, p, g, pos)
			e.store(fr, p, args[1], g, pos)
			return old
		}
		intrinsics["sync/atomic.CompareAndSwap"+ty] = func(e *Engine, fr *frame, fn *ssa.Function, args []Value, g *Term, pos token.Pos) Value {
			p := args[0].(*PtrV)
			old := e.load(fr, p, g, pos).(*Term)
			ok := Eq(old, args[1].(*Term))
			e.store(fr, p, args[2], And(g, ok), pos)
			return ok
		}
	}
	// atomic.Pointer[T]: the unsafe.Pointer field holds the pointer value itself
	ptrField := func(p *PtrV) *PtrV { return p.extend(PathElem{Field: 2}) } // {_ [0]*T; _ noCopy; v unsafe.Pointer}
	intrinsics["(*sync/atomic.Pointer[T]).Load"] = func(e *Engine, fr *frame, fn *ssa.Function, args []Value, g *Term, pos token.Pos) Value {
		v := e.load(fr, ptrField(args[0].(*PtrV)), g, pos)
		if _, ok := v.(*Term); ok {
			return nilPtr
		}
		return v
	}
	intrinsics["(*sync/atomic.Pointer[T]).Store"] = func(e *Engine, fr *frame, fn *ssa.Function, args []Value, g *Term, pos token.Pos) Value {
		e.store(fr, ptrField(args[0].(*PtrV)), args[1], g, pos)
		return nil
	}
	intrinsics["(*sync/atomic.Pointer[T]).Swap"] = func(e *Engine, fr *frame, fn *ssa.Function, args []Value, g *Term, pos token.Pos) Value {
		f := ptrField(args[0].(*PtrV))
		v := e.load(fr, f, g, pos)
		if _, ok := v.(*Term); ok {
			v = nilPtr
		}
		e.store(fr, f, args[1], g, pos)
		return v
	}
	intrinsics["(*sync/atomic.Pointer[T]).CompareAndSwap"] = func(e *Engine, fr *frame, fn *ssa.Function, args []Value, g *Term, pos token.Pos) Value {
		f := ptrField(args[0].(*PtrV))
		v := e.load(fr, f, g, pos)
		if _, ok := v.(*Term); ok {
			v = nilPtr
		}
		ok := e.valEq(v, args[1])
		e.store(fr, f, args[2], And(g, ok), pos)
		return ok
	}
	// atomic.Value: {v any}
	intrinsics["(*sync/atomic.Value).Load"] = func(e *Engine, fr *frame, fn *ssa.Function, args []Value, g *Term, pos token.Pos) Value {
		return e.load(fr, args[0].(*PtrV).extend(PathElem{Field: 0}), g, pos)
	}
	intrinsics["(*sync/atomic.Value).Store"] = func(e *Engine, fr *frame, fn *ssa.Function, args []Value, g *Term, pos token.Pos) Value {
		e.store(fr, args[0].(*PtrV).extend(PathElem{Field: 0}), args[1], g, pos)
		return nil
	}

	// ---- errors / fmt ----
	intrinsics["errors.New"] = func(e *Engine, fr *frame, fn *ssa.Function, args []Value, g *Term, pos token.Pos) Value {
		return e.opaqueError("errors.New", nil)
	}
	intrinsics["fmt.Errorf"] = func(e *Engine, fr *frame, fn *ssa.Function, args []Value, g *Term, pos token.Pos) Value {
		var wrapped Value
		if f, ok := args[0].(*StrV); ok {
			if s, ok := f.concrete(); ok && strings.Contains(s, "%w") {
				// the wrapped operand is the last error-typed variadic argument
				if va, ok := args[1].(*SliceV); ok && va.Len.IsConst() {
					for i := int(va.Len.val) - 1; i >= 0; i-- {
						el := e.sliceElem(va, c64(int64(i)))
						if iv, ok := el.(*IfaceV); ok && ifaceIsError(e, iv) {
							wrapped = iv
							break
						}
					}
				}
			}
		}
		return e.opaqueError("fmt.Errorf", wrapped)
	}
	for _, n := range []string{"fmt.Sprintf", "fmt.Sprint", "fmt.Sprintln", "strconv.Itoa", "strconv.FormatInt", "strconv.FormatUint", "strconv.Quote"} {
		nn := n
		intrinsics[n] = func(e *Engine, fr *frame, fn *ssa.Function, args []Value, g *Term, pos token.Pos) Value {
			return e.opaqueString(nn)
		}
	}
	for _, n := range []string{"fmt.Printf", "fmt.Println", "fmt.Print", "fmt.Fprintf", "fmt.Fprintln", "fmt.Fprint"} {
		intrinsics[n] = noop
	}
	intrinsics["errors.Is"] = func(e *Engine, fr *frame, fn *ssa.Function, args []Value, g *Term, pos token.Pos) Value {
		return e.errorsIs(fr, args[0].(*IfaceV), args[1].(*IfaceV), g, pos, 4)
	}
	intrinsics["errors.Unwrap"] = func(e *Engine, fr *frame, fn *ssa.Function, args []Value, g *Term, pos token.Pos) Value {
		return e.unwrapErr(fr, args[0].(*IfaceV), g, pos)
	}

	// ---- math/bits: solver-friendly forms ----
	intrinsics["math/bits.OnesCount32"] = func(e *Engine, fr *frame, fn *ssa.Function, args []Value, g *Term, pos token.Pos) Value {
		return Zext(PopCount(args[0].(*Term)), 32)
	}
	intrinsics["math/bits.OnesCount64"] = func(e *Engine, fr *frame, fn *ssa.Function, args []Value, g *Term, pos token.Pos) Value {
		return PopCount(args[0].(*Term))
	}
	intrinsics["math/bits.OnesCount8"] = func(e *Engine, fr *frame, fn *ssa.Function, args []Value, g *Term, pos token.Pos) Value {
		return Zext(PopCount(args[0].(*Term)), 56)
	}
	intrinsics["math/bits.OnesCount16"] = func(e *Engine, fr *frame, fn *ssa.Function, args []Value, g *Term, pos token.Pos) Value {
		return Zext(PopCount(args[0].(*Term)), 48)
	}

	// ---- randomness: arbitrary value within the documented range ----
	intn := func(tag string) intrinsic {
		return func(e *Engine, fr *frame, fn *ssa.Function, args []Value, g *Term, pos token.Pos) Value {
			n := args[len(args)-1].(*Term)
			e.panicIf(fr, g, Sle(n, Const(n.W(), 0)), tag+": non-positive argument", pos)
			v := e.newNondet(tag, "bv", n.W(), BV(n.W()), 0)
			e.assume(Implies(g, And(Sge(v, Const(n.W(), 0)), Slt(v, n))))
			return v
		}
	}
	intrinsics["math/rand.Intn"] = intn("rand.Intn")
	intrinsics["math/rand.Int63n"] = intn("rand.Int63n")
	intrinsics["math/rand.Int31n"] = intn("rand.Int31n")
	intrinsics["(*math/rand.Rand).Intn"] = intn("rand.Intn")
	intrinsics["math/rand.Uint32"] = func(e *Engine, fr *frame, fn *ssa.Function, args []Value, g *Term, pos token.Pos) Value {
		return e.newNondet("rand.Uint32", "bv", 32, BV(32), 0)
	}
	intrinsics["math/rand.Uint64"] = func(e *Engine, fr *frame, fn *ssa.Function, args []Value, g *Term, pos token.Pos) Value {
		return e.newNondet("rand.Uint64", "bv", 64, BV(64), 0)
	}
	intrinsics["math/rand.Int63"] = func(e *Engine, fr *frame, fn *ssa.Function, args []Value, g *Term, pos token.Pos) Value {
		v := e.newNondet("rand.Int63", "bv", 64, BV(64), 0)
		e.assume(Sge(v, c64(0)))
		return v
	}
	intrinsics["math/rand.Int"] = intrinsics["math/rand.Int63"]
	intrinsics["math/rand.Float64"] = func(e *Engine, fr *frame, fn *ssa.Function, args []Value, g *Term, pos token.Pos) Value {
		return e.newNondet("rand.Float64", "bv", 64, BV(64), 0)
	}
	randRead := func(e *Engine, fr *frame, fn *ssa.Function, args []Value, g *Term, pos token.Pos) Value {
		s := args[0].(*SliceV)
		fresh := Fresh("randbytes", ArrS(64, 8))
		if len(s.Arr.T) > 0 {
			e.updateSliceArr(fr, s, g, func(old *ArrV) *Term {
				return arrCopy(old.T, s.Off, fresh, c64(0), s.Len, 8)
			})
		}
		return &StructV{F: []Value{s.Len, &IfaceV{}}}
	}
	intrinsics["crypto/rand.Read"] = randRead
	intrinsics["math/rand.Read"] = randRead
}

func init() {
	foreignGlobals["golang.org/x/sys/cpu.X86"] = func(e *Engine, t types.Type) Value {
		v := zeroValue(t).(*StructV)
		st := t.Underlying().(*types.Struct)
		for i := 0; i < st.NumFields(); i++ {
			if st.Field(i).Name() == "HasBMI2" {
				switch e.spec.BMI2 {
				case "asm":
					v.F[i] = tTrue
				case "either":
					v.F[i] = e.newNondet("cpu.HasBMI2", "bool", 1, BoolSort, 0)
				default:
					v.F[i] = tFalse
				}
			}
		}
		return v
	}
}

func ifaceIsError(e *Engine, iv *IfaceV) bool {
	for _, al := range iv.A {
		if al.Typ == opaqueErrT {
			return true
		}
		if types.Implements(al.Typ, errorType.Underlying().(*types.Interface)) {
			return true
		}
	}
	return false
}

func (e *Engine) unwrapErr(fr *frame, iv *IfaceV, g *Term, pos token.Pos) *IfaceV {
	out := &IfaceV{}
	for _, al := range iv.A {
		var inner Value
		if al.Typ == opaqueErrT {
			inner = al.Val.(*StructV).F[1]
		} else {
			ms := e.prog.MethodSets.MethodSet(al.Typ)
			sel := ms.Lookup(nil, "Unwrap")
			if sel == nil {
				continue
			}
			fn := e.prog.MethodValue(sel)
			if fn == nil || fn.Signature.Results().Len() != 1 {
				continue
			}
			inner = e.invokeFn(fr, fn, []Value{al.Val}, nil, And(g, al.G), pos)
		}
		if in, ok := inner.(*IfaceV); ok {
			out = mergeIface(al.G, in, out)
		}
	}
	return out
}

func (e *Engine) errorsIs(fr *frame, err, target *IfaceV, g *Term, pos token.Pos, depth int) *Term {
	if len(err.A) == 0 {
		return e.valEq(err, target)
	}
	r := e.valEq(err, target)
	if depth == 0 {
		return r
	}
	inner := e.unwrapErr(fr, err, g, pos)
	if len(inner.A) == 0 {
		return r
	}
	var ig []*Term
	for _, al := range inner.A {
		ig = append(ig, al.G)
	}
	return Or(r, And(Or(ig...), e.errorsIs(fr, inner, target, g, pos, depth-1)))
}

// noopPackages: every function of these packages is skipped (returns zero
// values); Fatal* is a process exit and therefore a crash obligation.
func (e *Engine) packageRule(fr *frame, fn *ssa.Function, args []Value, g *Term, pos token.Pos) (Value, bool) {
	if fn.Pkg == nil {
		return nil, false
	}
	path := fn.Pkg.Pkg.Path()
	switch path {
	case "github.com/enfein/mieru/v3/pkg/log", "log":
		if strings.HasPrefix(fn.Name(), "Fatal") || strings.HasPrefix(fn.Name(), "Panic") {
			e.oblige("panic", "process exit via "+fn.String(), g, pos, fr.fn.String())
			e.assumeFact(Not(g))
			return nil, true
		}
		e.stubLog["skip:"+path]++
		return zeroResults(fn.Signature), true
	}
	// generated protobuf code: String() of enums and messages goes through the
	// reflection runtime (protoimpl.X); formatting is never the subject, so the
	// result is an opaque constant string
	if strings.HasSuffix(path, "pb") && fn.Name() == "String" && fn.Signature.Recv() != nil && fn.Signature.Params().Len() == 0 && fn.Signature.Results().Len() == 1 && isStringT(fn.Signature.Results().At(0).Type()) {
		e.stubLog["opaque:"+path+".String"]++
		return strConst("<pb>"), true
	}
	return nil, false
}

var _ = fmt.Sprintf

// ---- hashes and KDFs: uninterpreted functions of their full input ----

// bytesAsArgs turns a byte slice of constant length <= 64 into UF arguments;
// longer or symbolic-length inputs become (array, length).
func (e *Engine) bytesAsArgs(s *SliceV) ([]*Term, string) {
	if len(s.Arr.T) == 0 {
		return []*Term{}, "n0"
	}
	a := e.sliceArr(s)
	if s.Len.IsConst() && s.Len.val <= 128 {
		// pack into 64-bit words (big endian), last word narrower
		var ts []*Term
		n := int(s.Len.val)
		for i := 0; i < n; i += 8 {
			var w *Term
			for j := i; j < i+8 && j < n; j++ {
				b := Select(a.T, Add(s.Off, c64(int64(j))))
				if w == nil {
					w = b
				} else {
					w = Concat(w, b)
				}
			}
			ts = append(ts, w)
		}
		return ts, fmt.Sprintf("n%d", n)
	}
	mx := 1 << 16
	return []*Term{shiftArr(a.T, s.Off, mx, 8), s.Len}, "arr"
}

// ufBytes returns outLen bytes produced by 64-bit-word uninterpreted functions.
func (e *Engine) ufBytes(name string, outLen int, args []*Term) *ArrV {
	t := ConstArr(64, 8, Const(8, 0))
	for i := 0; i < outLen; i += 8 {
		w := Apply(fmt.Sprintf("%s.w%d", name, i/8), BV(64), args...)
		for j := 0; j < 8 && i+j < outLen; j++ {
			t = Store(t, c64(int64(i+j)), Extract(w, 63-8*j, 56-8*j))
		}
	}
	return &ArrV{T: t, N: c64(int64(outLen)), EW: 8}
}

func init() {
	intrinsics["crypto/sha256.Sum256"] = func(e *Engine, fr *frame, fn *ssa.Function, args []Value, g *Term, pos token.Pos) Value {
		ts, shape := e.bytesAsArgs(args[0].(*SliceV))
		if len(ts) == 0 {
			ts = []*Term{c64(0)}
		}
		return e.ufBytes("sha256."+shape, 32, ts)
	}
	intrinsics["golang.org/x/crypto/pbkdf2.Key"] = func(e *Engine, fr *frame, fn *ssa.Function, args []Value, g *Term, pos token.Pos) Value {
		pw, s1 := e.bytesAsArgs(args[0].(*SliceV))
		salt, s2 := e.bytesAsArgs(args[1].(*SliceV))
		iter := args[2].(*Term)
		klen := args[3].(*Term)
		if !klen.IsConst() {
			panic(unsupported("pbkdf2.Key with symbolic key length"))
		}
		all := append(append([]*Term{}, pw...), salt...)
		all = append(all, iter, klen)
		arr := e.ufBytes("pbkdf2."+s1+"."+s2, int(klen.val), all)
		o := newObject("pbkdf2key", types.NewArray(types.Typ[types.Uint8], int64(klen.val)), arr)
		return &SliceV{Arr: ptrTo(o), Off: c64(0), Len: klen, Cap: klen}
	}
}

// opaque constructors: return a pointer to a zero object of the result type;
// the object's methods are not modelled (using one is reported as unsupported
// by whatever the real body then needs).
func init() {
	for _, n := range []string{"regexp.MustCompile"} {
		intrinsics[n] = func(e *Engine, fr *frame, fn *ssa.Function, args []Value, g *Term, pos token.Pos) Value {
			rt := fn.Signature.Results().At(0).Type().(*types.Pointer).Elem()
			return ptrTo(newObject("opaque:"+fn.String(), rt, zeroValue(rt)))
		}
	}
}

// ---- sync.Map: a plain map keyed by interface values (atomicity assumed) ----

func (e *Engine) syncMapOf(p *PtrV) *MapData {
	if len(p.T) != 1 {
		panic(unsupported(fmt.Sprintf("sync.Map reached through an ambiguous pointer (%d targets)", len(p.T))))
	}
	k := fmt.Sprintf("%d%s", p.T[0].Obj.id, pathStr(p.T[0].Path))
	if e.syncMaps == nil {
		e.syncMaps = map[string]*MapData{}
	}
	md, ok := e.syncMaps[k]
	if !ok {
		anyT := types.NewInterfaceType(nil, nil)
		md = &MapData{keyT: anyT, valT: anyT}
		e.syncMaps[k] = md
	}
	return md
}

func init() {
	intrinsics["(*sync.Map).Load"] = func(e *Engine, fr *frame, fn *ssa.Function, args []Value, g *Term, pos token.Pos) Value {
		md := e.syncMapOf(args[0].(*PtrV))
		v, f := e.mapLookupData(md, args[1])
		return &StructV{F: []Value{v, f}}
	}
	intrinsics["(*sync.Map).Store"] = func(e *Engine, fr *frame, fn *ssa.Function, args []Value, g *Term, pos token.Pos) Value {
		md := e.syncMapOf(args[0].(*PtrV))
		o := &Object{mp: md}
		e.mapUpdate(fr, &MapV{T: []PtrTarget{{G: tTrue, Obj: o}}}, args[1], args[2], g, pos)
		return nil
	}
	intrinsics["(*sync.Map).LoadOrStore"] = func(e *Engine, fr *frame, fn *ssa.Function, args []Value, g *Term, pos token.Pos) Value {
		md := e.syncMapOf(args[0].(*PtrV))
		v, f := e.mapLookupData(md, args[1])
		o := &Object{mp: md}
		e.mapUpdate(fr, &MapV{T: []PtrTarget{{G: tTrue, Obj: o}}}, args[1], args[2], And(g, Not(f)), pos)
		return &StructV{F: []Value{merge(f, v, args[2]), f}}
	}
	intrinsics["(*sync.Map).Delete"] = func(e *Engine, fr *frame, fn *ssa.Function, args []Value, g *Term, pos token.Pos) Value {
		md := e.syncMapOf(args[0].(*PtrV))
		o := &Object{mp: md}
		e.mapDelete(fr, &MapV{T: []PtrTarget{{G: tTrue, Obj: o}}}, args[1], g)
		return nil
	}
	intrinsics["(*sync.Map).LoadAndDelete"] = func(e *Engine, fr *frame, fn *ssa.Function, args []Value, g *Term, pos token.Pos) Value {
		md := e.syncMapOf(args[0].(*PtrV))
		v, f := e.mapLookupData(md, args[1])
		o := &Object{mp: md}
		e.mapDelete(fr, &MapV{T: []PtrTarget{{G: tTrue, Obj: o}}}, args[1], g)
		return &StructV{F: []Value{v, f}}
	}
	intrinsics["(*sync.Map).Range"] = func(e *Engine, fr *frame, fn *ssa.Function, args []Value, g *Term, pos token.Pos) Value {
		md := e.syncMapOf(args[0].(*PtrV))
		fv := args[1].(*FuncV)
		cont := tTrue
		snapshot := append([]MapEntry{}, md.entries...)
		for _, en := range snapshot {
			eg := And(g, en.G, cont)
			if eg.IsFalse() {
				continue
			}
			var r Value
			for _, al := range fv.A {
				r = e.invokeFn(fr, al.Fn, []Value{en.Key, en.Val}, al.Binds, And(eg, al.G), pos)
			}
			if rt, ok := r.(*Term); ok {
				cont = And(cont, Or(Not(And(en.G)), rt))
			}
		}
		return nil
	}
}

func init() {
	intrinsics["hash/maphash.MakeSeed"] = func(e *Engine, fr *frame, fn *ssa.Function, args []Value, g *Term, pos token.Pos) Value {
		return &StructV{F: []Value{e.newNondet("maphash.seed", "bv", 64, BV(64), 0)}}
	}
	intrinsics["hash/maphash.Bytes"] = func(e *Engine, fr *frame, fn *ssa.Function, args []Value, g *Term, pos token.Pos) Value {
		seed := args[0].(*StructV).F[0].(*Term)
		ts, shape := e.bytesAsArgs(args[1].(*SliceV))
		return Apply("maphash."+shape, BV(64), append([]*Term{seed}, ts...)...)
	}
	intrinsics["hash/maphash.String"] = func(e *Engine, fr *frame, fn *ssa.Function, args []Value, g *Term, pos token.Pos) Value {
		seed := args[0].(*StructV).F[0].(*Term)
		s := args[1].(*StrV)
		return Apply("maphash.str", BV(64), seed, s.Data, s.Len)
	}
}

// ---- pkg/rng: range contracts (the floating-point scaleDown path is not analysed) ----
func init() {
	rngIntn := func(e *Engine, fr *frame, fn *ssa.Function, args []Value, g *Term, pos token.Pos) Value {
		n := args[0].(*Term)
		w := n.W()
		e.panicIf(fr, g, Slt(n, Const(w, 0)), "rng.Intn: negative argument (math/rand.Intn panics)", pos)
		v := e.newNondet("rng.Intn", "bv", w, BV(w), 0)
		e.assume(Implies(g, And(Sge(v, Const(w, 0)), Or(Slt(v, n), And(Eq(n, Const(w, 0)), Eq(v, Const(w, 0)))))))
		return v
	}
	intrinsics["github.com/enfein/mieru/v3/pkg/rng.Intn"] = rngIntn
	intrinsics["github.com/enfein/mieru/v3/pkg/rng.Int63n"] = rngIntn
	fixed := func(kind string) intrinsic {
		return func(e *Engine, fr *frame, fn *ssa.Function, args []Value, g *Term, pos token.Pos) Value {
			n := args[0].(*Term)
			var seed *Term
			if len(args) > 1 {
				h := args[1].(*StrV)
				if cs, ok := h.concrete(); ok {
					seed = Apply(fmt.Sprintf("%s.%x", kind, cs), BV(64))
				} else {
					seed = Apply(kind+".sym", BV(64), h.Data, h.Len)
				}
			} else {
				seed = Apply(kind+".host", BV(64))
			}
			v := Zext(Extract(seed, 30, 0), 33) // 31-bit non-negative value
			return Ite(Sle(n, c64(0)), c64(0), URem(v, n))
		}
	}
	intrinsics["github.com/enfein/mieru/v3/pkg/rng.FixedInt"] = fixed("fixedint")
	intrinsics["github.com/enfein/mieru/v3/pkg/rng.FixedIntV"] = fixed("fixedintv")
	intrinsics["github.com/enfein/mieru/v3/pkg/rng.FixedIntVH"] = fixed("fixedintvh")
	intrinsics["os.Hostname"] = func(e *Engine, fr *frame, fn *ssa.Function, args []Value, g *Term, pos token.Pos) Value {
		return &StructV{F: []Value{e.opaqueString("hostname"), &IfaceV{}}}
	}
}

// ---- internal/bytealg (assembly in the real build) ----
func (e *Engine) indexByteArr(data *Term, off *Term, n *Term, max int, c *Term) *Term {
	res := Const(64, ^uint64(0))
	for i := max - 1; i >= 0; i-- {
		ii := c64(int64(i))
		hit := And(Ult(ii, n), Eq(Select(data, Add(off, ii)), c))
		res = Ite(hit, ii, res)
	}
	return res
}

func init() {
	intrinsics["internal/bytealg.IndexByteString"] = func(e *Engine, fr *frame, fn *ssa.Function, args []Value, g *Term, pos token.Pos) Value {
		s := args[0].(*StrV)
		if s.Max > 512 {
			panic(unsupported("IndexByteString on long symbolic string"))
		}
		return e.indexByteArr(s.Data, c64(0), s.Len, s.Max, args[1].(*Term))
	}
	intrinsics["internal/bytealg.IndexByte"] = func(e *Engine, fr *frame, fn *ssa.Function, args []Value, g *Term, pos token.Pos) Value {
		s := args[0].(*SliceV)
		if len(s.Arr.T) == 0 {
			return Const(64, ^uint64(0))
		}
		mx := umax(s.Len)
		if mx > 512 {
			panic(unsupported("IndexByte on long symbolic slice"))
		}
		return e.indexByteArr(e.sliceArr(s).T, s.Off, s.Len, int(mx), args[1].(*Term))
	}
	intrinsics["internal/bytealg.Equal"] = func(e *Engine, fr *frame, fn *ssa.Function, args []Value, g *Term, pos token.Pos) Value {
		a, b := args[0].(*SliceV), args[1].(*SliceV)
		if len(a.Arr.T) == 0 || len(b.Arr.T) == 0 {
			return Eq(a.Len, b.Len)
		}
		mx := umax(a.Len)
		if m2 := umax(b.Len); m2 < mx {
			mx = m2
		}
		if mx > 1024 {
			panic(unsupported("bytealg.Equal on long symbolic slices"))
		}
		aa, ba := e.sliceArr(a).T, e.sliceArr(b).T
		cs := []*Term{Eq(a.Len, b.Len)}
		for i := 0; i < int(mx); i++ {
			ii := c64(int64(i))
			cs = append(cs, Or(Uge(ii, a.Len), Eq(Select(aa, Add(a.Off, ii)), Select(ba, Add(b.Off, ii)))))
		}
		return And(cs...)
	}
	// pure parsers on constant arguments are evaluated natively
	intrinsics["net.ParseIP"] = func(e *Engine, fr *frame, fn *ssa.Function, args []Value, g *Term, pos token.Pos) Value {
		s, ok := args[0].(*StrV).concrete()
		if !ok {
			panic(unsupported("net.ParseIP on a symbolic string"))
		}
		ip := net.ParseIP(s)
		if ip == nil {
			return zeroValue(fn.Signature.Results().At(0).Type())
		}
		return e.constBytes([]byte(ip))
	}
	// net.ParseCIDR(<constant>) -> (IP, *IPNet{IP, Mask}, error), natively
	intrinsics["net.ParseCIDR"] = func(e *Engine, fr *frame, fn *ssa.Function, args []Value, g *Term, pos token.Pos) Value {
		s, ok := args[0].(*StrV).concrete()
		if !ok {
			panic(unsupported("net.ParseCIDR on a symbolic string"))
		}
		res := fn.Signature.Results()
		ip, ipn, err := net.ParseCIDR(s)
		if err != nil {
			return &StructV{F: []Value{zeroValue(res.At(0).Type()), nilPtr, e.opaqueError("net.ParseCIDR: invalid CIDR address", nil)}}
		}
		netT := res.At(1).Type().(*types.Pointer).Elem()
		o := newObject("ipnet", netT, &StructV{F: []Value{e.constBytes([]byte(ipn.IP)), e.constBytes([]byte(ipn.Mask))}})
		return &StructV{F: []Value{e.constBytes([]byte(ip)), ptrTo(o), zeroValue(res.At(2).Type())}}
	}
}

func (e *Engine) constBytes(b []byte) *SliceV {
	t := ConstArr(64, 8, Const(8, 0))
	for i, c := range b {
		t = Store(t, c64(int64(i)), Const(8, uint64(c)))
	}
	n := c64(int64(len(b)))
	o := newObject("constbytes", types.NewArray(types.Typ[types.Uint8], int64(len(b))), &ArrV{T: t, N: n, EW: 8})
	return &SliceV{Arr: ptrTo(o), Off: c64(0), Len: n, Cap: n}
}

func init() {
	foreignGlobals["net.IPv6loopback"] = func(e *Engine, t types.Type) Value {
		return e.constBytes([]byte(net.IPv6loopback))
	}
	foreignGlobals["net.IPv6unspecified"] = func(e *Engine, t types.Type) Value {
		return e.constBytes([]byte(net.IPv6unspecified))
	}
	foreignGlobals["net.IPv4zero"] = func(e *Engine, t types.Type) Value { return e.constBytes([]byte(net.IPv4zero)) }
	foreignGlobals["net.v4InV6Prefix"] = func(e *Engine, t types.Type) Value {
		return e.constBytes([]byte{0, 0, 0, 0, 0, 0, 0, 0, 0, 0, 0xff, 0xff})
	}
}

// ---- strings: ASCII models (non-ASCII bytes pass through unchanged; the
// real functions map Unicode letters too - outside every claim) ----
func mapStr(s *StrV, f func(c *Term) *Term) *StrV {
	if s.IsLit {
		b := []byte(s.Lit)
		for i := range b {
			c := f(Const(8, uint64(b[i])))
			b[i] = byte(c.val)
		}
		return strConst(string(b))
	}
	if s.Max > 512 {
		panic(unsupported("string mapping on long symbolic string"))
	}
	d := s.Data
	for i := 0; i < s.Max; i++ {
		ii := c64(int64(i))
		d = Store(d, ii, f(Select(s.Data, ii)))
	}
	return &StrV{Len: s.Len, Data: d, Max: s.Max}
}

func init() {
	intrinsics["strings.ToLower"] = func(e *Engine, fr *frame, fn *ssa.Function, args []Value, g *Term, pos token.Pos) Value {
		e.note("strings.ToLower modelled for ASCII (Unicode case mapping outside the claim)")
		return mapStr(args[0].(*StrV), func(c *Term) *Term {
			return Ite(And(Uge(c, Const(8, 'A')), Ule(c, Const(8, 'Z'))), Add(c, Const(8, 32)), c)
		})
	}
	intrinsics["strings.ToUpper"] = func(e *Engine, fr *frame, fn *ssa.Function, args []Value, g *Term, pos token.Pos) Value {
		e.note("strings.ToUpper modelled for ASCII (Unicode case mapping outside the claim)")
		return mapStr(args[0].(*StrV), func(c *Term) *Term {
			return Ite(And(Uge(c, Const(8, 'a')), Ule(c, Const(8, 'z'))), Sub(c, Const(8, 32)), c)
		})
	}
}

func init() {
	intrinsics["internal/bytealg.CountString"] = func(e *Engine, fr *frame, fn *ssa.Function, args []Value, g *Term, pos token.Pos) Value {
		s := args[0].(*StrV)
		c := args[1].(*Term)
		if s.Max > 512 {
			panic(unsupported("CountString on long symbolic string"))
		}
		n := c64(0)
		for i := 0; i < s.Max; i++ {
			ii := c64(int64(i))
			n = Add(n, Ite(And(Ult(ii, s.Len), Eq(Select(s.Data, ii), c)), c64(1), c64(0)))
		}
		return n
	}
	intrinsics["internal/bytealg.IndexString"] = func(e *Engine, fr *frame, fn *ssa.Function, args []Value, g *Term, pos token.Pos) Value {
		a, b := args[0].(*StrV), args[1].(*StrV)
		if a.Max > 256 || b.Max > 64 {
			panic(unsupported("IndexString on long symbolic strings"))
		}
		res := Const(64, ^uint64(0))
		for i := a.Max; i >= 0; i-- {
			ii := c64(int64(i))
			// match at i: i+len(b) <= len(a) and bytes equal
			cs := []*Term{Ule(Add(ii, b.Len), a.Len)}
			for k := 0; k < b.Max; k++ {
				kk := c64(int64(k))
				cs = append(cs, Or(Uge(kk, b.Len), Eq(Select(a.Data, Add(ii, kk)), Select(b.Data, kk))))
			}
			res = Ite(And(cs...), ii, res)
		}
		return res
	}
}

func init() {
	foreignGlobals["internal/bytealg.MaxLen"] = func(e *Engine, t types.Type) Value { return c64(63) }
	intrinsics["strings.Index"] = intrinsics["internal/bytealg.IndexString"]
	intrinsics["strings.IndexByte"] = intrinsics["internal/bytealg.IndexByteString"]
}

// ---- strings.Builder: {addr *Builder; buf []byte} without the unsafe tricks ----
func init() {
	bufPtr := func(p *PtrV) *PtrV { return p.extend(PathElem{Field: 1}) }
	byteSliceT := types.NewSlice(types.Typ[types.Uint8])
	appendTo := func(e *Engine, fr *frame, p *PtrV, more Value, g *Term, pos token.Pos) {
		cur := e.load(fr, bufPtr(p), g, pos).(*SliceV)
		nv := e.appendOp(fr, cur, more, byteSliceT, g, pos)
		e.store(fr, bufPtr(p), nv, g, pos)
	}
	intrinsics["(*strings.Builder).copyCheck"] = noop
	intrinsics["(*strings.Builder).Grow"] = noop
	intrinsics["(*strings.Builder).WriteString"] = func(e *Engine, fr *frame, fn *ssa.Function, args []Value, g *Term, pos token.Pos) Value {
		appendTo(e, fr, args[0].(*PtrV), args[1], g, pos)
		return &StructV{F: []Value{args[1].(*StrV).Len, &IfaceV{}}}
	}
	intrinsics["(*strings.Builder).Write"] = func(e *Engine, fr *frame, fn *ssa.Function, args []Value, g *Term, pos token.Pos) Value {
		appendTo(e, fr, args[0].(*PtrV), args[1], g, pos)
		return &StructV{F: []Value{args[1].(*SliceV).Len, &IfaceV{}}}
	}
	intrinsics["(*strings.Builder).WriteByte"] = func(e *Engine, fr *frame, fn *ssa.Function, args []Value, g *Term, pos token.Pos) Value {
		d := Store(ConstArr(64, 8, Const(8, 0)), c64(0), args[1].(*Term))
		appendTo(e, fr, args[0].(*PtrV), &StrV{Len: c64(1), Data: d, Max: 1}, g, pos)
		return &IfaceV{}
	}
	intrinsics["(*strings.Builder).WriteRune"] = func(e *Engine, fr *frame, fn *ssa.Function, args []Value, g *Term, pos token.Pos) Value {
		e.note("strings.Builder.WriteRune modelled for ASCII only")
		d := Store(ConstArr(64, 8, Const(8, 0)), c64(0), Extract(args[1].(*Term), 7, 0))
		appendTo(e, fr, args[0].(*PtrV), &StrV{Len: c64(1), Data: d, Max: 1}, g, pos)
		return &StructV{F: []Value{c64(1), &IfaceV{}}}
	}
	intrinsics["(*strings.Builder).String"] = func(e *Engine, fr *frame, fn *ssa.Function, args []Value, g *Term, pos token.Pos) Value {
		cur := e.load(fr, bufPtr(args[0].(*PtrV)), g, pos).(*SliceV)
		return e.convert(fr, cur, byteSliceT, types.Typ[types.String], g)
	}
	intrinsics["(*strings.Builder).Len"] = func(e *Engine, fr *frame, fn *ssa.Function, args []Value, g *Term, pos token.Pos) Value {
		return e.load(fr, bufPtr(args[0].(*PtrV)), g, pos).(*SliceV).Len
	}
	intrinsics["(*strings.Builder).Reset"] = func(e *Engine, fr *frame, fn *ssa.Function, args []Value, g *Term, pos token.Pos) Value {
		e.store(fr, bufPtr(args[0].(*PtrV)), zeroValue(byteSliceT), g, pos)
		return nil
	}
}

// ---- reflection-driven codecs: opaque (arbitrary result / arbitrary error) ----
func (e *Engine) nondetErr(tag string) *IfaceV {
	b := e.newNondet(tag+".fails", "bool", 1, BoolSort, 0)
	er := e.opaqueError(tag, nil).(*IfaceV)
	return mergeIface(b, er, &IfaceV{})
}

func init() {
	for _, n := range []string{"encoding/base64.StdEncoding", "encoding/base64.URLEncoding", "encoding/base64.RawStdEncoding", "encoding/base64.RawURLEncoding"} {
		nn := n
		foreignGlobals[n] = func(e *Engine, t types.Type) Value {
			et := t.(*types.Pointer).Elem()
			return ptrTo(newObject("opaque:"+nn, et, zeroValue(et)))
		}
	}
	intrinsics["(*encoding/base64.Encoding).DecodeString"] = func(e *Engine, fr *frame, fn *ssa.Function, args []Value, g *Term, pos token.Pos) Value {
		e.note("base64 decoding is opaque: arbitrary bytes (<= 3/4 of the input) or an arbitrary error")
		in := args[1].(*StrV)
		mx := in.Max
		n := e.newNondet("base64.len", "bv", 64, BV(64), 0)
		e.assume(Ule(n, c64(int64(mx))))
		arr := Fresh("base64.out", ArrS(64, 8))
		o := newObject("base64out", types.NewArray(types.Typ[types.Uint8], int64(mx)), &ArrV{T: arr, N: c64(int64(mx)), EW: 8})
		return &StructV{F: []Value{&SliceV{Arr: ptrTo(o), Off: c64(0), Len: n, Cap: c64(int64(mx))}, e.nondetErr("base64.DecodeString")}}
	}
	intrinsics["(*encoding/base64.Encoding).EncodeToString"] = func(e *Engine, fr *frame, fn *ssa.Function, args []Value, g *Term, pos token.Pos) Value {
		return e.opaqueString("base64.EncodeToString")
	}
	intrinsics["google.golang.org/protobuf/proto.Unmarshal"] = func(e *Engine, fr *frame, fn *ssa.Function, args []Value, g *Term, pos token.Pos) Value {
		e.note("proto.Unmarshal is opaque: arbitrary error, message contents not modelled")
		return e.nondetErr("proto.Unmarshal")
	}
	intrinsics["google.golang.org/protobuf/proto.Marshal"] = func(e *Engine, fr *frame, fn *ssa.Function, args []Value, g *Term, pos token.Pos) Value {
		e.note("proto.Marshal is opaque")
		arr := Fresh("proto.out", ArrS(64, 8))
		n := e.newNondet("proto.len", "bv", 64, BV(64), 0)
		e.assume(Ule(n, c64(256)))
		o := newObject("protoout", types.NewArray(types.Typ[types.Uint8], 256), &ArrV{T: arr, N: c64(256), EW: 8})
		return &StructV{F: []Value{&SliceV{Arr: ptrTo(o), Off: c64(0), Len: n, Cap: c64(256)}, e.nondetErr("proto.Marshal")}}
	}
}

// ---- proto.Clone: deep copy of the message's object graph ----
func (e *Engine) deepCopy(v Value, seen map[*Object]*Object, depth int) Value {
	if depth > 12 {
		panic(unsupported("deepCopy: object graph too deep"))
	}
	switch x := v.(type) {
	case nil:
		return nil
	case *Term:
		return x
	case *StructV:
		out := &StructV{F: make([]Value, len(x.F))}
		for i := range x.F {
			out.F[i] = e.deepCopy(x.F[i], seen, depth+1)
		}
		return out
	case *ArrV:
		return x
	case *StrV:
		return x
	case *VecV:
		out := &VecV{E: make([]Value, len(x.E))}
		for i := range x.E {
			out.E[i] = e.deepCopy(x.E[i], seen, depth+1)
		}
		return out
	case *PtrV:
		out := &PtrV{}
		for _, t := range x.T {
			no, ok := seen[t.Obj]
			if !ok {
				no = newObject("clone:"+t.Obj.name, t.Obj.typ, nil)
				seen[t.Obj] = no
				no.val = e.deepCopy(t.Obj.val, seen, depth+1)
			}
			out.T = append(out.T, PtrTarget{G: t.G, Obj: no, Path: t.Path})
		}
		return out
	case *SliceV:
		return &SliceV{Arr: e.deepCopy(x.Arr, seen, depth+1).(*PtrV), Off: x.Off, Len: x.Len, Cap: x.Cap}
	case *IfaceV:
		out := &IfaceV{}
		for _, al := range x.A {
			out.A = append(out.A, IfaceAlt{G: al.G, Typ: al.Typ, Val: e.deepCopy(al.Val, seen, depth+1)})
		}
		return out
	case *MapV, *ChanV, *FuncV:
		return x
	}
	panic(unsupported(fmt.Sprintf("deepCopy of %T", v)))
}

func init() {
	intrinsics["google.golang.org/protobuf/proto.Clone"] = func(e *Engine, fr *frame, fn *ssa.Function, args []Value, g *Term, pos token.Pos) Value {
		e.note("proto.Clone modelled as a deep copy of the message's Go object graph")
		return e.deepCopy(args[0], map[*Object]*Object{}, 0)
	}
	ptrTo1 := func(name string) intrinsic {
		return func(e *Engine, fr *frame, fn *ssa.Function, args []Value, g *Term, pos token.Pos) Value {
			o := newObject(name, fn.Signature.Params().At(0).Type(), args[0])
			return ptrTo(o)
		}
	}
	for _, n := range []string{"Bool", "Int32", "Int64", "Uint32", "Uint64", "String", "Float32", "Float64"} {
		intrinsics["google.golang.org/protobuf/proto."+n] = ptrTo1("proto." + n)
	}
	// fmt.Sprintf with a literal format and scalar arguments: a deterministic
	// (uninterpreted) function of its arguments
	intrinsics["fmt.Sprintf"] = func(e *Engine, fr *frame, fn *ssa.Function, args []Value, g *Term, pos token.Pos) Value {
		f, ok := args[0].(*StrV)
		if ok {
			if fs, ok := f.concrete(); ok {
				if va, ok := args[1].(*SliceV); ok && va.Len.IsConst() {
					var ts []*Term
					allScalar := true
					for i := 0; i < int(va.Len.val); i++ {
						el := e.sliceElem(va, c64(int64(i)))
						iv, ok := el.(*IfaceV)
						if !ok || len(iv.A) != 1 {
							allScalar = false
							break
						}
						t, ok := iv.A[0].Val.(*Term)
						if !ok || t.sort.K != SBV {
							allScalar = false
							break
						}
						ts = append(ts, Resize(t, 64, true))
					}
					if allScalar && len(ts) > 0 {
						key := fmt.Sprintf("sprintf.%x", fs)
						l := Apply(key+".len", BV(64), ts...)
						e.assume(Ule(l, c64(48)))
						d := Apply(key+".data", ArrS(64, 8), ts...)
						return &StrV{Len: l, Data: d, Max: 48}
					}
				}
			}
		}
		return e.opaqueString("fmt.Sprintf")
	}
}

// ---- package math: floats are opaque 64-bit patterns ----
func init() {
	id := func(e *Engine, fr *frame, fn *ssa.Function, args []Value, g *Term, pos token.Pos) Value { return args[0] }
	intrinsics["math.Float64bits"] = id
	intrinsics["math.Float64frombits"] = id
	intrinsics["math.Float32bits"] = id
	intrinsics["math.Float32frombits"] = id
	for _, n := range []string{"Pow", "Sqrt", "Exp", "Log", "Cbrt", "Abs", "Floor", "Ceil", "Round", "Max", "Min", "Mod", "Log2", "Trunc"} {
		nn := n
		intrinsics["math."+n] = func(e *Engine, fr *frame, fn *ssa.Function, args []Value, g *Term, pos token.Pos) Value {
			var ts []*Term
			for _, a := range args {
				ts = append(ts, a.(*Term))
			}
			return Apply("math."+nn, BV(64), ts...)
		}
	}
	intrinsics["math.IsNaN"] = func(e *Engine, fr *frame, fn *ssa.Function, args []Value, g *Term, pos token.Pos) Value {
		return Eq(Apply("math.IsNaN", BV(1), args[0].(*Term)), Const(1, 1))
	}
	intrinsics["math.IsInf"] = func(e *Engine, fr *frame, fn *ssa.Function, args []Value, g *Term, pos token.Pos) Value {
		return Eq(Apply("math.IsInf", BV(1), args[0].(*Term), args[1].(*Term)), Const(1, 1))
	}
}

func init() {
	intrinsics["os.Getenv"] = func(e *Engine, fr *frame, fn *ssa.Function, args []Value, g *Term, pos token.Pos) Value {
		return strConst("") // the environment is empty in the symbolic run
	}
}
