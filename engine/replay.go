package main

import (
	"encoding/json"
	"fmt"
	"os"
	"os/exec"
	"path/filepath"
	"strings"
	"time"
)

// SrcPatch is a textual redirect applied to a copy of a /repo source file for
// the native replay only (the file under /repo is never modified): it gives the
// native run the same environment hook the symbolic run had.
type SrcPatch struct {
	File string `json:"file"` // relative to /repo
	Old  string `json:"old"`
	New  string `json:"new"`
	All  bool   `json:"all,omitempty"` // replace every occurrence (at least one must exist)
}

type ReplayRecord struct {
	Property  string            `json:"property"`
	Harness   string            `json:"harness"`
	Pkg       string            `json:"pkg"`
	Label     string            `json:"label"`
	Kind      string            `json:"kind"`
	Site      string            `json:"site"`
	Vector    map[string]string `json:"vector"`
	ReplayFn  string            `json:"replay_fn,omitempty"`
	Patches   []SrcPatch        `json:"source_patches,omitempty"`
	Redirects map[string]string `json:"redirects,omitempty"`
	ExtraPkgs []string          `json:"extra_pkgs,omitempty"`
}

// replayRecord runs the counterexample natively against /repo's current tree
// (go test with an overlay; nothing is written under /repo).
func replayRecord(rec *ReplayRecord) (bool, string) {
	if rec.Kind == "unwind" {
		return false, "unwinding assertion failed: the registered loop bound is too small for this tree (not a property violation by itself)"
	}
	if rec.Kind == "blocked" && rec.ReplayFn == "" {
		return false, "blocking outcome has no native replay"
	}
	tmp, err := os.MkdirTemp("", "gosmt-replay-")
	if err != nil {
		return false, err.Error()
	}
	defer os.RemoveAll(tmp)
	ov, pkgName, err := overlayFor(rec.Pkg, rec.ExtraPkgs...)
	if err != nil {
		return false, err.Error()
	}
	repl := map[string]string{}
	i := 0
	for path, content := range ov {
		p := filepath.Join(tmp, fmt.Sprintf("f%d.go", i))
		i++
		os.WriteFile(p, content, 0o644)
		repl[path] = p
	}
	for k, sp := range rec.Patches {
		src, err := os.ReadFile(filepath.Join(repoRoot, sp.File))
		if err != nil {
			return false, "replay patch: " + err.Error()
		}
		target := filepath.Join(repoRoot, sp.File)
		if prev, ok := repl[target]; ok { // several patches on one file compose
			src, _ = os.ReadFile(prev)
		}
		cnt := strings.Count(string(src), sp.Old)
		if sp.All && cnt == 0 {
			continue // nothing of this kind to redirect in this tree (e.g. no time.Since call left)
		}
		if cnt == 0 || (!sp.All && cnt != 1) {
			return false, "replay patch does not apply to this tree: " + sp.File
		}
		p := filepath.Join(tmp, fmt.Sprintf("patched%d.go", k))
		patched := strings.Replace(string(src), sp.Old, sp.New, -1)
		if strings.HasPrefix(sp.Old, "time.") && !strings.Contains(patched, "var _ = time.Now // verif") {
			patched += "\nvar _ = time.Now // verif: keeps the time import used after the clock was redirected\n"
		}
		os.WriteFile(p, []byte(patched), 0o644)
		repl[target] = p
	}
	// mirror the symbolic redirect table natively (see replay_redirect.go);
	// functions already covered by a hand-written source patch are skipped
	auto := map[string]string{}
	for k, v := range rec.Redirects {
		skip := false
		for _, sp := range rec.Patches {
			if strings.Contains(sp.New, v+"(") {
				skip = true
			}
		}
		if !skip {
			auto[k] = v
		}
	}
	have := map[string][]byte{}
	for target, p := range repl {
		if strings.HasPrefix(filepath.Base(p), "patched") {
			if b, err := os.ReadFile(p); err == nil {
				have[target] = b
			}
		}
	}
	rfiles, rimports, rinits, _, rerr := redirectPatches(rec.Pkg, auto, have)
	if rerr != nil {
		return false, "replay redirect: " + rerr.Error()
	}
	k2 := 0
	for target, content := range rfiles {
		p := filepath.Join(tmp, fmt.Sprintf("redir%d.go", k2))
		k2++
		os.WriteFile(p, content, 0o644)
		repl[target] = p
	}
	call := rec.Harness + "()"
	body := ""
	if rec.ReplayFn != "" {
		body = fmt.Sprintf("\tif d := %s(); d != \"\" {\n\t\tfmt.Println(\"VREPLAY: reproduced custom: \" + d)\n\t\treturn\n\t}\n", rec.ReplayFn)
	} else {
		body = "\t" + call + "\n"
	}
	extraImports, initBody := "", ""
	for _, im := range rimports {
		extraImports += "\t" + im + "\n"
	}
	if len(rinits) > 0 {
		initBody = "func init() {\n"
		for _, st := range rinits {
			initBody += "\t" + st + "\n"
		}
		initBody += "}\n"
	}
	test := fmt.Sprintf(`package %s

import (
	"fmt"
	"testing"
`+extraImports+`)

`+initBody+`

func TestVReplay(t *testing.T) {
	defer func() {
		if r := recover(); r != nil {
			switch x := r.(type) {
			case vAssertFailure:
				fmt.Println("VREPLAY: reproduced assert: " + x.Label)
			case vAssumeFailure:
				fmt.Println("VREPLAY: assumption failed")
			default:
				fmt.Printf("VREPLAY: reproduced panic: %%v\n", r)
			}
		}
	}()
%s	fmt.Println("VREPLAY: not reproduced")
}
`, pkgName, body)
	tp := filepath.Join(tmp, "replay_test.go")
	os.WriteFile(tp, []byte(test), 0o644)
	repl[filepath.Join(repoRoot, rec.Pkg, "zz_verif_replay_test.go")] = tp
	ovj, _ := json.Marshal(map[string]interface{}{"Replace": repl})
	ovp := filepath.Join(tmp, "overlay.json")
	os.WriteFile(ovp, ovj, 0o644)
	vec := filepath.Join(tmp, "vector.json")
	vb, _ := json.Marshal(rec.Vector)
	os.WriteFile(vec, vb, 0o644)
	cmd := exec.Command("go", "test", "-vet=off", "-count=1", "-run", "^TestVReplay$", "-v", "-overlay", ovp, "./"+rec.Pkg)
	cmd.Dir = repoRoot
	cmd.Env = append(os.Environ(), "GOFLAGS=-mod=mod", "GOPROXY=off", "GOSUMDB=off", "GOTOOLCHAIN=local", "VERIF_REPLAY="+vec,
		"GOCACHE="+goCache())
	done := make(chan struct{})
	var out []byte
	go func() { out, err = cmd.CombinedOutput(); close(done) }()
	select {
	case <-done:
	case <-time.After(300 * time.Second):
		cmd.Process.Kill()
		return false, "native replay timed out"
	}
	s := string(out)
	for _, ln := range strings.Split(s, "\n") {
		if strings.HasPrefix(ln, "VREPLAY: ") {
			msg := strings.TrimPrefix(ln, "VREPLAY: ")
			switch {
			case strings.HasPrefix(msg, "reproduced assert: "):
				if rec.Kind == "assert" && strings.TrimPrefix(msg, "reproduced assert: ") == rec.Label {
					return true, msg
				}
				return false, "different failure natively: " + msg
			case strings.HasPrefix(msg, "reproduced panic: "):
				if rec.Kind == "panic" {
					return true, msg
				}
				return false, "different failure natively: " + msg
			case strings.HasPrefix(msg, "reproduced custom: "):
				return true, msg
			default:
				return false, msg
			}
		}
	}
	return false, "replay produced no verdict: " + tail(s, 600)
}

func goCache() string {
	if v := os.Getenv("GOCACHE"); v != "" {
		return v
	}
	out, err := exec.Command("go", "env", "GOCACHE").Output()
	if err == nil {
		return strings.TrimSpace(string(out))
	}
	return filepath.Join(os.TempDir(), "gosmt-gocache")
}

func cmdReplay(args []string) int {
	if len(args) < 1 {
		fmt.Fprintln(os.Stderr, "usage: gosmt replay <path>")
		return 2
	}
	b, err := os.ReadFile(args[0])
	if err != nil {
		fmt.Fprintln(os.Stderr, err)
		return 2
	}
	var rec ReplayRecord
	if err := json.Unmarshal(b, &rec); err != nil {
		fmt.Fprintln(os.Stderr, err)
		return 2
	}
	ok, detail := replayRecord(&rec)
	fmt.Printf("replay property=%s harness=%s obligation=%q reproduced=%v detail=%s\n", rec.Property, rec.Harness, rec.Label, ok, detail)
	if ok {
		return 1
	}
	return 0
}
