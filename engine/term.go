package main

// Hash-consed, constant-folding term DAG over Bool, bit-vectors (width <= 64)
// and arrays BV->BV, printed as SMT-LIB2.

import (
	"fmt"
	"math/bits"
	"sort"
	"strings"
	"sync"
)

type SortKind uint8

const (
	SBool SortKind = iota
	SBV
	SArr
)

type Sort struct {
	K    SortKind
	W    int // BV width, or array element width
	IdxW int // array index width
}

func BV(w int) Sort          { return Sort{K: SBV, W: w} }
func ArrS(iw, ew int) Sort   { return Sort{K: SArr, W: ew, IdxW: iw} }
func (s Sort) String() string {
	switch s.K {
	case SBool:
		return "Bool"
	case SBV:
		return fmt.Sprintf("(_ BitVec %d)", s.W)
	default:
		return fmt.Sprintf("(Array (_ BitVec %d) (_ BitVec %d))", s.IdxW, s.W)
	}
}

var BoolSort = Sort{K: SBool}

type Op uint8

const (
	OConst Op = iota
	OVar
	ONot
	OAnd
	OOr
	OIte
	OEq
	OAdd
	OSub
	OMul
	OUDiv
	OURem
	OSDiv
	OSRem
	OBAnd
	OBOr
	OBXor
	OBNot
	ONeg
	OShl
	OLshr
	OAshr
	OUlt
	OUle
	OSlt
	OSle
	OConcat
	OExtract
	OZext
	OSext
	OSelect
	OStore
	OConstArr
	OApply  // uninterpreted function application; name = function symbol
	OLambda // array lambda: args[0] = body, bound var is named in name
	OBound  // bound variable of a lambda
)

var opName = map[Op]string{
	ONot: "not", OAnd: "and", OOr: "or", OIte: "ite", OEq: "=",
	OAdd: "bvadd", OSub: "bvsub", OMul: "bvmul", OUDiv: "bvudiv", OURem: "bvurem",
	OSDiv: "bvsdiv", OSRem: "bvsrem", OBAnd: "bvand", OBOr: "bvor", OBXor: "bvxor",
	OBNot: "bvnot", ONeg: "bvneg", OShl: "bvshl", OLshr: "bvlshr", OAshr: "bvashr",
	OUlt: "bvult", OUle: "bvule", OSlt: "bvslt", OSle: "bvsle", OConcat: "concat",
	OSelect: "select", OStore: "store",
}

type Term struct {
	id   int
	op   Op
	sort Sort
	args []*Term
	val  uint64 // OConst (bool: 0/1)
	name string // OVar, OApply, OLambda(bound var name), OBound
	hi   int    // OExtract hi ; OZext/OSext extra bits
	lo   int
	hasB bool // contains a bound variable (not safe to hoist into define-fun)
	umOK bool
	um   uint64
}

type TermStore struct {
	tab    map[string]*Term
	nextID int
	ufs    map[string]string // uninterpreted function declarations: name -> decl
	vars   []*Term
	nfresh int
	mu     sync.Mutex
}

var TS = &TermStore{tab: map[string]*Term{}, ufs: map[string]string{}}

func (ts *TermStore) key(t *Term) string {
	var b strings.Builder
	fmt.Fprintf(&b, "%d|%d.%d.%d|%d|%s|%d.%d", t.op, t.sort.K, t.sort.W, t.sort.IdxW, t.val, t.name, t.hi, t.lo)
	for _, a := range t.args {
		fmt.Fprintf(&b, ",%d", a.id)
	}
	return b.String()
}

func (ts *TermStore) mk(t *Term) *Term {
	ts.mu.Lock()
	defer ts.mu.Unlock()
	k := ts.key(t)
	if o, ok := ts.tab[k]; ok {
		return o
	}
	ts.nextID++
	t.id = ts.nextID
	for _, a := range t.args {
		if a.hasB {
			t.hasB = true
		}
	}
	if t.op == OBound {
		t.hasB = true
	}
	if t.op == OLambda {
		t.hasB = false
		// nested lambdas with distinct bound names are fine; recompute
		// conservatively: a lambda closes its own variable only.
		t.hasB = lambdaHasFree(t.args[0], t.name)
	}
	ts.tab[k] = t
	return t
}

func lambdaHasFree(body *Term, bound string) bool {
	seen := map[int]bool{}
	var rec func(t *Term) bool
	rec = func(t *Term) bool {
		if !t.hasB || seen[t.id] {
			return false
		}
		seen[t.id] = true
		if t.op == OBound {
			return t.name != bound
		}
		if t.op == OLambda {
			return t.hasB
		}
		for _, a := range t.args {
			if rec(a) {
				return true
			}
		}
		return false
	}
	return rec(body)
}

func mask(w int) uint64 {
	if w >= 64 {
		return ^uint64(0)
	}
	return (uint64(1) << uint(w)) - 1
}

func sx(v uint64, w int) int64 {
	if w >= 64 {
		return int64(v)
	}
	if v&(1<<uint(w-1)) != 0 {
		return int64(v | ^mask(w))
	}
	return int64(v)
}

// ---- constructors ----

var tTrue, tFalse *Term

func init() {
	tTrue = TS.mk(&Term{op: OConst, sort: BoolSort, val: 1})
	tFalse = TS.mk(&Term{op: OConst, sort: BoolSort, val: 0})
}

func Bool(b bool) *Term {
	if b {
		return tTrue
	}
	return tFalse
}

func Const(w int, v uint64) *Term {
	if w <= 0 || w > 64 {
		panic(fmt.Sprintf("Const: bad width %d", w))
	}
	return TS.mk(&Term{op: OConst, sort: BV(w), val: v & mask(w)})
}

func Var(name string, s Sort) *Term {
	t := &Term{op: OVar, sort: s, name: name}
	return TS.mk(t)
}

func Fresh(prefix string, s Sort) *Term {
	TS.nfresh++
	return Var(fmt.Sprintf("%s!%d", prefix, TS.nfresh), s)
}

func (t *Term) IsConst() bool { return t.op == OConst }
func (t *Term) IsTrue() bool  { return t == tTrue }
func (t *Term) IsFalse() bool { return t == tFalse }
func (t *Term) W() int        { return t.sort.W }

func Not(a *Term) *Term {
	if a.sort.K != SBool {
		panic("Not: non-bool")
	}
	if a == tTrue {
		return tFalse
	}
	if a == tFalse {
		return tTrue
	}
	if a.op == ONot {
		return a.args[0]
	}
	return TS.mk(&Term{op: ONot, sort: BoolSort, args: []*Term{a}})
}

func nary(op Op, xs []*Term) *Term {
	// flatten, drop neutral, detect absorbing, dedupe, detect x and not x
	neutral, absorbing := tTrue, tFalse
	if op == OOr {
		neutral, absorbing = tFalse, tTrue
	}
	var flat []*Term
	var add func(x *Term) bool
	seen := map[int]bool{}
	add = func(x *Term) bool {
		if x.sort.K != SBool {
			panic("and/or: non-bool arg")
		}
		if x == neutral {
			return true
		}
		if x == absorbing {
			return false
		}
		if x.op == op {
			for _, y := range x.args {
				if !add(y) {
					return false
				}
			}
			return true
		}
		if seen[x.id] {
			return true
		}
		seen[x.id] = true
		flat = append(flat, x)
		return true
	}
	for _, x := range xs {
		if !add(x) {
			return absorbing
		}
	}
	for _, x := range flat {
		if x.op == ONot && seen[x.args[0].id] {
			return absorbing
		}
	}
	if len(flat) == 0 {
		return neutral
	}
	if len(flat) == 1 {
		return flat[0]
	}
	if len(flat) <= 12 {
		if r := resolveArgs(op, flat); r != nil {
			return nary(op, r)
		}
	}
	sort.Slice(flat, func(i, j int) bool { return flat[i].id < flat[j].id })
	return TS.mk(&Term{op: op, sort: BoolSort, args: flat})
}

// resolveArgs looks, among the arguments of an Or (dually And), for a pair
// A = And(S,c), B = And(S,not c) -> And(S), or an absorbed argument
// (Or(g, And(g,c)) = g).  It returns a rewritten argument list or nil.
func resolveArgs(op Op, flat []*Term) []*Term {
	inner := OAnd
	if op == OAnd {
		inner = OOr
	}
	lits := func(t *Term) []*Term {
		if t.op == inner {
			return t.args
		}
		return []*Term{t}
	}
	for i := 0; i < len(flat); i++ {
		li := lits(flat[i])
		for j := i + 1; j < len(flat); j++ {
			lj := lits(flat[j])
			// absorption
			if subset(li, lj) {
				return dropAt(flat, j)
			}
			if subset(lj, li) {
				return dropAt(flat, i)
			}
			if len(li) != len(lj) {
				continue
			}
			// differ in exactly one complementary literal?
			var onlyI, onlyJ []*Term
			inJ := map[int]bool{}
			for _, x := range lj {
				inJ[x.id] = true
			}
			inI := map[int]bool{}
			for _, x := range li {
				inI[x.id] = true
				if !inJ[x.id] {
					onlyI = append(onlyI, x)
				}
			}
			for _, x := range lj {
				if !inI[x.id] {
					onlyJ = append(onlyJ, x)
				}
			}
			if len(onlyI) == 1 && len(onlyJ) == 1 && Not(onlyI[0]) == onlyJ[0] {
				var common []*Term
				for _, x := range li {
					if x != onlyI[0] {
						common = append(common, x)
					}
				}
				merged := nary(inner, common)
				out := append([]*Term{}, flat[:i]...)
				out = append(out, flat[i+1:j]...)
				out = append(out, flat[j+1:]...)
				return append(out, merged)
			}
		}
	}
	return nil
}

func subset(a, b []*Term) bool {
	if len(a) > len(b) {
		return false
	}
	m := map[int]bool{}
	for _, x := range b {
		m[x.id] = true
	}
	for _, x := range a {
		if !m[x.id] {
			return false
		}
	}
	return true
}

func dropAt(xs []*Term, k int) []*Term {
	out := append([]*Term{}, xs[:k]...)
	return append(out, xs[k+1:]...)
}

func And(xs ...*Term) *Term { return nary(OAnd, xs) }
func Or(xs ...*Term) *Term  { return nary(OOr, xs) }
func Implies(a, b *Term) *Term { return Or(Not(a), b) }

func Ite(c, a, b *Term) *Term {
	if c == tTrue {
		return a
	}
	if c == tFalse {
		return b
	}
	if a == b {
		return a
	}
	if a.sort != b.sort {
		panic(fmt.Sprintf("Ite: sort mismatch %v vs %v", a.sort, b.sort))
	}
	if a.sort.K == SBool {
		if a == tTrue && b == tFalse {
			return c
		}
		if a == tFalse && b == tTrue {
			return Not(c)
		}
		if a == tTrue {
			return Or(c, b)
		}
		if a == tFalse {
			return And(Not(c), b)
		}
		if b == tTrue {
			return Or(Not(c), a)
		}
		if b == tFalse {
			return And(c, a)
		}
	}
	if c.op == ONot {
		return Ite(c.args[0], b, a)
	}
	// ite(c, x, ite(c, y, z)) = ite(c, x, z)
	if b.op == OIte && b.args[0] == c {
		return Ite(c, a, b.args[2])
	}
	if a.op == OIte && a.args[0] == c {
		return Ite(c, a.args[1], b)
	}
	return TS.mk(&Term{op: OIte, sort: a.sort, args: []*Term{c, a, b}})
}

func Eq(a, b *Term) *Term {
	if a.sort != b.sort {
		panic(fmt.Sprintf("Eq: sort mismatch %v vs %v", a.sort, b.sort))
	}
	if a == b {
		return tTrue
	}
	if a.op == OConst && b.op == OConst {
		return Bool(a.val == b.val)
	}
	if a.sort.K == SBool {
		if a == tTrue {
			return b
		}
		if b == tTrue {
			return a
		}
		if a == tFalse {
			return Not(b)
		}
		if b == tFalse {
			return Not(a)
		}
	}
	// eq(ite(c, k1, k2), k) with constants
	if b.op == OConst && a.op == OIte && a.sort.K == SBV {
		if a.args[1].op == OConst && a.args[2].op == OConst {
			return Ite(a.args[0], Eq(a.args[1], b), Eq(a.args[2], b))
		}
	}
	if a.op == OConst && b.op == OIte && b.sort.K == SBV {
		return Eq(b, a)
	}
	// zext(x) == const
	if b.op == OConst && a.op == OZext {
		inner := a.args[0]
		if b.val>>uint(inner.W()) != 0 {
			return tFalse
		}
		return Eq(inner, Const(inner.W(), b.val))
	}
	if a.id > b.id {
		a, b = b, a
	}
	return TS.mk(&Term{op: OEq, sort: BoolSort, args: []*Term{a, b}})
}

func Ne(a, b *Term) *Term { return Not(Eq(a, b)) }

func bin(op Op, a, b *Term) *Term {
	if a.sort != b.sort || a.sort.K != SBV {
		panic(fmt.Sprintf("bin %s: sort mismatch %v vs %v", opName[op], a.sort, b.sort))
	}
	w := a.W()
	if a.op == OConst && b.op == OConst {
		x, y := a.val, b.val
		switch op {
		case OAdd:
			return Const(w, x+y)
		case OSub:
			return Const(w, x-y)
		case OMul:
			return Const(w, x*y)
		case OUDiv:
			if y == 0 {
				return Const(w, mask(w))
			}
			return Const(w, x/y)
		case OURem:
			if y == 0 {
				return a
			}
			return Const(w, x%y)
		case OSDiv:
			if y == 0 {
				if sx(x, w) < 0 {
					return Const(w, 1)
				}
				return Const(w, mask(w))
			}
			sxv, syv := sx(x, w), sx(y, w)
			if syv == -1 {
				return Const(w, uint64(-sxv))
			}
			return Const(w, uint64(sxv/syv))
		case OSRem:
			if y == 0 {
				return a
			}
			sxv, syv := sx(x, w), sx(y, w)
			if syv == -1 {
				return Const(w, 0)
			}
			return Const(w, uint64(sxv%syv))
		case OBAnd:
			return Const(w, x&y)
		case OBOr:
			return Const(w, x|y)
		case OBXor:
			return Const(w, x^y)
		case OShl:
			if y >= uint64(w) {
				return Const(w, 0)
			}
			return Const(w, x<<y)
		case OLshr:
			if y >= uint64(w) {
				return Const(w, 0)
			}
			return Const(w, x>>y)
		case OAshr:
			if y >= uint64(w) {
				y = uint64(w - 1)
			}
			return Const(w, uint64(sx(x, w)>>y))
		}
	}
	// algebraic identities
	switch op {
	case OAdd:
		if a.op == OConst && a.val == 0 {
			return b
		}
		if b.op == OConst && b.val == 0 {
			return a
		}
		// (x + c1) + c2
		if b.op == OConst && a.op == OAdd && a.args[1].op == OConst {
			return bin(OAdd, a.args[0], Const(w, a.args[1].val+b.val))
		}
		if a.op == OConst {
			a, b = b, a
		}
	case OSub:
		if b.op == OConst && b.val == 0 {
			return a
		}
		if a == b {
			return Const(w, 0)
		}
		if b.op == OConst {
			return bin(OAdd, a, Const(w, -b.val))
		}
		// (x + y) - x = y ; (x + y) - y = x
		if a.op == OAdd {
			if a.args[0] == b {
				return a.args[1]
			}
			if a.args[1] == b {
				return a.args[0]
			}
		}
	case OMul:
		if a.op == OConst {
			a, b = b, a
		}
		if b.op == OConst {
			if b.val == 0 {
				return b
			}
			if b.val == 1 {
				return a
			}
		}
	case OBAnd:
		if a.op == OConst {
			a, b = b, a
		}
		if b.op == OConst {
			if b.val == 0 {
				return b
			}
			if b.val == mask(w) {
				return a
			}
		}
		if a == b {
			return a
		}
	case OBOr:
		if a.op == OConst {
			a, b = b, a
		}
		if b.op == OConst {
			if b.val == 0 {
				return a
			}
			if b.val == mask(w) {
				return b
			}
		}
		if a == b {
			return a
		}
		for pass := 0; pass < 2; pass++ {
			// concat(x, 0^k) | zext(y:k) = concat(x, y)
			if a.op == OConcat && a.args[1].op == OConst && a.args[1].val == 0 {
				k := a.args[1].W()
				if b.op == OZext && b.args[0].W() == k {
					return Concat(a.args[0], b.args[0])
				}
				if umax(b) <= mask(k) {
					return Concat(a.args[0], Extract(b, k-1, 0))
				}
			}
			a, b = b, a
		}
	case OBXor:
		if a.op == OConst {
			a, b = b, a
		}
		if b.op == OConst && b.val == 0 {
			return a
		}
		if a == b {
			return Const(w, 0)
		}
	case OShl, OLshr, OAshr:
		if b.op == OConst && b.val == 0 {
			return a
		}
		if b.op == OConst && b.val >= uint64(w) && op != OAshr {
			return Const(w, 0)
		}
		if a.op == OConst && a.val == 0 {
			return a
		}
		// constant shifts become wiring
		if b.op == OConst && b.val < uint64(w) {
			k := int(b.val)
			switch op {
			case OShl:
				return Concat(Extract(a, w-1-k, 0), Const(k, 0))
			case OLshr:
				return Zext(Extract(a, w-1, k), k)
			}
		}
	case OUDiv, OURem, OSDiv, OSRem:
		if b.op == OConst && b.val == 1 {
			if op == OUDiv || op == OSDiv {
				return a
			}
			return Const(w, 0)
		}
		if b.op == OConst && b.val != 0 && b.val&(b.val-1) == 0 && b.val < uint64(1)<<uint(w-1) {
			k := bits.TrailingZeros64(b.val)
			nonneg := umax(a) < uint64(1)<<uint(w-1)
			if op == OUDiv || (op == OSDiv && nonneg) {
				return Zext(Extract(a, w-1, k), k)
			}
			if op == OURem || (op == OSRem && nonneg) {
				return Zext(Extract(a, k-1, 0), w-k)
			}
		}
		if b.op == OConst && b.val != 0 && (op == OSDiv || op == OSRem) && umax(a) < uint64(1)<<uint(w-1) && sx(b.val, w) > 0 {
			// non-negative dividend, positive divisor: unsigned forms
			if op == OSDiv {
				return bin(OUDiv, a, b)
			}
			return bin(OURem, a, b)
		}
	}
	return TS.mk(&Term{op: op, sort: a.sort, args: []*Term{a, b}})
}

func Add(a, b *Term) *Term  { return bin(OAdd, a, b) }
func Sub(a, b *Term) *Term  { return bin(OSub, a, b) }
func Mul(a, b *Term) *Term  { return bin(OMul, a, b) }
func UDiv(a, b *Term) *Term { return bin(OUDiv, a, b) }
func URem(a, b *Term) *Term { return bin(OURem, a, b) }
func SDiv(a, b *Term) *Term { return bin(OSDiv, a, b) }
func SRem(a, b *Term) *Term { return bin(OSRem, a, b) }
func BAnd(a, b *Term) *Term { return bin(OBAnd, a, b) }
func BOr(a, b *Term) *Term  { return bin(OBOr, a, b) }
func BXor(a, b *Term) *Term { return bin(OBXor, a, b) }
func Shl(a, b *Term) *Term  { return bin(OShl, a, b) }
func Lshr(a, b *Term) *Term { return bin(OLshr, a, b) }
func Ashr(a, b *Term) *Term { return bin(OAshr, a, b) }

func BNot(a *Term) *Term {
	if a.op == OConst {
		return Const(a.W(), ^a.val)
	}
	if a.op == OBNot {
		return a.args[0]
	}
	return TS.mk(&Term{op: OBNot, sort: a.sort, args: []*Term{a}})
}

func Neg(a *Term) *Term {
	if a.op == OConst {
		return Const(a.W(), -a.val)
	}
	return TS.mk(&Term{op: ONeg, sort: a.sort, args: []*Term{a}})
}

// umax returns an upper bound of the unsigned value of t (cheap syntactic
// interval analysis used to decide comparisons without the solver).
// knownUB: upper bounds of specific terms established by unconditional
// assumptions (vAssume(x <= c), lengths of nondet strings).
var knownUB = map[int]uint64{}

func setKnownUB(t *Term, ub uint64) {
	if old, ok := knownUB[t.id]; !ok || ub < old {
		knownUB[t.id] = ub
		t.umOK = false
	}
}

func umax(t *Term) uint64 {
	if ub, ok := knownUB[t.id]; ok {
		return ub
	}
	if t.umOK {
		return t.um
	}
	r := umax0(t)
	t.um, t.umOK = r, true
	return r
}

func umax0(t *Term) uint64 {
	switch t.op {
	case OConst:
		return t.val
	case OZext:
		return umax(t.args[0])
	case OIte:
		a, b := umax(t.args[1]), umax(t.args[2])
		// clamp patterns: ite(x<y, x, y) = min(x,y); ite(y<x, x, y) = max(x,y)
		c := t.args[0]
		neg := false
		if c.op == ONot {
			c, neg = c.args[0], true
		}
		signedCmp := c.op == OSlt || c.op == OSle
		if (c.op == OUlt || c.op == OUle) || (signedCmp && a < 1<<62 && b < 1<<62) {
			x, y := t.args[1], t.args[2]
			if neg {
				x, y = y, x // ite(!(p<q), x, y) = ite(p<q, y, x) up to equality, which does not matter for min/max
			}
			if c.args[0] == x && c.args[1] == y { // min
				if a < b {
					return a
				}
				return b
			}
		}
		if a > b {
			return a
		}
		return b
	case OBAnd:
		a, b := umax(t.args[0]), umax(t.args[1])
		if a < b {
			return a
		}
		return b
	case OURem:
		if t.args[1].op == OConst && t.args[1].val > 0 {
			return t.args[1].val - 1
		}
	case OConcat:
		hi, lo := t.args[0], t.args[1]
		return umax(hi)<<uint(lo.W()) | umax(lo)
	case OBOr, OBXor:
		a, b := umax(t.args[0]), umax(t.args[1])
		if b > a {
			a = b
		}
		// smallest 2^k-1 >= a
		r := uint64(0)
		for r < a {
			r = r<<1 | 1
		}
		return r
	case OUDiv:
		if t.args[1].op == OConst && t.args[1].val > 0 {
			return umax(t.args[0]) / t.args[1].val
		}
	case OAdd:
		a, b := umax(t.args[0]), umax(t.args[1])
		if s := a + b; s >= a && s <= mask(t.W()) {
			return s
		}
	case OMul:
		a, b := umax(t.args[0]), umax(t.args[1])
		if a != 0 && b != 0 {
			hi, lo := bits.Mul64(a, b)
			if hi == 0 && lo <= mask(t.W()) {
				return lo
			}
		} else {
			return 0
		}
	case OLshr:
		if t.args[1].op == OConst {
			return umax(t.args[0]) >> t.args[1].val
		}
	}
	return mask(t.W())
}

// srange: a cheap signed interval for 64-bit terms built from bounded
// non-negative values by +, - and constants (ok=false when unknown).
func srange(t *Term) (lo, hi int64, ok bool) {
	if t.W() != 64 {
		return 0, 0, false
	}
	const lim = int64(1) << 61
	switch t.op {
	case OConst:
		v := int64(t.val)
		if v > -lim && v < lim {
			return v, v, true
		}
		return 0, 0, false
	case OSub, OAdd:
		al, ah, ok1 := srange(t.args[0])
		bl, bh, ok2 := srange(t.args[1])
		if !ok1 || !ok2 {
			break
		}
		if t.op == OSub {
			return al - bh, ah - bl, true
		}
		return al + bl, ah + bh, true
	}
	if u := umax(t); u < uint64(lim) {
		return 0, int64(u), true
	}
	return 0, 0, false
}

func floorDiv(a, b int64) int64 {
	q := a / b
	if (a%b != 0) && ((a < 0) != (b < 0)) {
		q--
	}
	return q
}

// mulCmp rewrites  x*c <op> K  (signed, c > 0 constant, no overflow by srange)
// into a comparison on x.
func mulCmp(op Op, a, b *Term) *Term {
	split := func(t *Term) (*Term, int64, bool) {
		if t.op == OMul && t.args[1].IsConst() {
			c := int64(t.args[1].val)
			if c > 1 && c < 1<<31 {
				if lo, hi, ok := srange(t.args[0]); ok && lo > -(1<<30) * (1<<1) * (1 << 0) * (1 << 29) / 1 && hi < (1<<60) && (hi < (1<<61)/c) && (lo > -(1<<61)/c) {
					return t.args[0], c, true
				}
			}
		}
		return nil, 0, false
	}
	if x, c, ok := split(a); ok && b.IsConst() {
		k := int64(b.val)
		if op == OSle { // x*c <= k  <=>  x <= floor(k/c)
			return cmp(OSle, x, Const(64, uint64(floorDiv(k, c))))
		}
		// x*c < k  <=>  x <= ceil(k/c)-1 = floor((k-1)/c)
		return cmp(OSle, x, Const(64, uint64(floorDiv(k-1, c))))
	}
	if x, c, ok := split(b); ok && a.IsConst() {
		k := int64(a.val)
		if op == OSle { // k <= x*c  <=>  x >= ceil(k/c) = floor((k-1)/c)+1
			return cmp(OSle, Const(64, uint64(floorDiv(k-1, c)+1)), x)
		}
		// k < x*c  <=>  x >= floor(k/c)+1
		return cmp(OSle, Const(64, uint64(floorDiv(k, c)+1)), x)
	}
	return nil
}

func cmp(op Op, a, b *Term) *Term {
	if a.sort != b.sort || a.sort.K != SBV {
		panic(fmt.Sprintf("cmp %s: sort mismatch %v vs %v", opName[op], a.sort, b.sort))
	}
	w := a.W()
	if w == 64 && (op == OSle || op == OSlt) && (a.op == OMul || b.op == OMul) {
		if r := mulCmp(op, a, b); r != nil {
			return r
		}
	}
	if a.op == OConst && b.op == OConst {
		switch op {
		case OUlt:
			return Bool(a.val < b.val)
		case OUle:
			return Bool(a.val <= b.val)
		case OSlt:
			return Bool(sx(a.val, w) < sx(b.val, w))
		case OSle:
			return Bool(sx(a.val, w) <= sx(b.val, w))
		}
	}
	if a == b {
		return Bool(op == OUle || op == OSle)
	}
	switch op {
	case OUlt:
		if b.op == OConst && b.val == 0 {
			return tFalse
		}
		if b.op == OConst && umax(a) < b.val {
			return tTrue
		}
	case OUle:
		if a.op == OConst && a.val == 0 {
			return tTrue
		}
		if b.op == OConst && umax(a) <= b.val {
			return tTrue
		}
	case OSlt, OSle:
		// if both are provably non-negative, use the unsigned comparison
		half := uint64(1) << uint(w-1)
		if umax(a) < half && umax(b) < half {
			if op == OSlt {
				return cmp(OUlt, a, b)
			}
			return cmp(OUle, a, b)
		}
	}
	return TS.mk(&Term{op: op, sort: BoolSort, args: []*Term{a, b}})
}

func Ult(a, b *Term) *Term { return cmp(OUlt, a, b) }
func Ule(a, b *Term) *Term { return cmp(OUle, a, b) }
func Slt(a, b *Term) *Term { return cmp(OSlt, a, b) }
func Sle(a, b *Term) *Term { return cmp(OSle, a, b) }
func Ugt(a, b *Term) *Term { return cmp(OUlt, b, a) }
func Uge(a, b *Term) *Term { return cmp(OUle, b, a) }
func Sgt(a, b *Term) *Term { return cmp(OSlt, b, a) }
func Sge(a, b *Term) *Term { return cmp(OSle, b, a) }

func Concat(a, b *Term) *Term {
	w := a.W() + b.W()
	if w > 64 {
		panic("Concat: width > 64")
	}
	if a.op == OConst && b.op == OConst {
		return Const(w, a.val<<uint(b.W())|b.val)
	}
	// concat(extract(x,h,m+1), extract(x,m,l)) = extract(x,h,l)
	if a.op == OExtract && b.op == OExtract && a.args[0] == b.args[0] && a.lo == b.hi+1 {
		return Extract(a.args[0], a.hi, b.lo)
	}
	if a.op == OConst && a.val == 0 {
		return Zext(b, a.W())
	}
	return TS.mk(&Term{op: OConcat, sort: BV(w), args: []*Term{a, b}})
}

func Extract(a *Term, hi, lo int) *Term {
	if hi < lo || lo < 0 || hi >= a.W() {
		panic(fmt.Sprintf("Extract: bad range %d:%d of width %d", hi, lo, a.W()))
	}
	w := hi - lo + 1
	if w == a.W() {
		return a
	}
	switch a.op {
	case OConst:
		return Const(w, a.val>>uint(lo))
	case OExtract:
		return Extract(a.args[0], a.lo+hi, a.lo+lo)
	case OConcat:
		bw := a.args[1].W()
		if hi < bw {
			return Extract(a.args[1], hi, lo)
		}
		if lo >= bw {
			return Extract(a.args[0], hi-bw, lo-bw)
		}
		return Concat(Extract(a.args[0], hi-bw, 0), Extract(a.args[1], bw-1, lo))
	case OZext:
		iw := a.args[0].W()
		if hi < iw {
			return Extract(a.args[0], hi, lo)
		}
		if lo >= iw {
			return Const(w, 0)
		}
		return Zext(Extract(a.args[0], iw-1, lo), hi-iw+1)
	case OSext:
		iw := a.args[0].W()
		if hi < iw {
			return Extract(a.args[0], hi, lo)
		}
	case OBAnd, OBOr, OBXor:
		if a.args[1].op == OConst || lo == 0 {
			return bin(a.op, Extract(a.args[0], hi, lo), Extract(a.args[1], hi, lo))
		}
	case OAdd, OSub, OMul:
		if lo == 0 {
			return bin(a.op, Extract(a.args[0], hi, 0), Extract(a.args[1], hi, 0))
		}
	case OIte:
		if a.args[1].op == OConst || a.args[2].op == OConst {
			return Ite(a.args[0], Extract(a.args[1], hi, lo), Extract(a.args[2], hi, lo))
		}
	}
	return TS.mk(&Term{op: OExtract, sort: BV(w), args: []*Term{a}, hi: hi, lo: lo})
}

func Zext(a *Term, extra int) *Term {
	if extra == 0 {
		return a
	}
	if a.W()+extra > 64 {
		panic("Zext: width > 64")
	}
	if a.op == OConst {
		return Const(a.W()+extra, a.val)
	}
	if a.op == OZext {
		return Zext(a.args[0], a.hi+extra)
	}
	return TS.mk(&Term{op: OZext, sort: BV(a.W() + extra), args: []*Term{a}, hi: extra})
}

func Sext(a *Term, extra int) *Term {
	if extra == 0 {
		return a
	}
	if a.op == OConst {
		return Const(a.W()+extra, uint64(sx(a.val, a.W())))
	}
	if a.op == OZext {
		return Zext(a.args[0], a.hi+extra)
	}
	return TS.mk(&Term{op: OSext, sort: BV(a.W() + extra), args: []*Term{a}, hi: extra})
}

// Resize converts a to width w with Go conversion semantics.
func Resize(a *Term, w int, signed bool) *Term {
	switch {
	case a.W() == w:
		return a
	case a.W() > w:
		return Extract(a, w-1, 0)
	case signed:
		return Sext(a, w-a.W())
	default:
		return Zext(a, w-a.W())
	}
}

func ConstArr(iw, ew int, v *Term) *Term {
	return TS.mk(&Term{op: OConstArr, sort: ArrS(iw, ew), args: []*Term{v}})
}

func Select(a, i *Term) *Term {
	if a.sort.K != SArr || i.sort != BV(a.sort.IdxW) {
		panic(fmt.Sprintf("Select: bad sorts %v[%v]", a.sort, i.sort))
	}
	cur := a
	for steps := 0; steps < 48; steps++ {
		switch cur.op {
		case OStore:
			j := cur.args[1]
			if j == i {
				return cur.args[2]
			}
			if j.op == OConst && i.op == OConst {
				cur = cur.args[0]
				continue
			}
			// syntactically distinct offsets from the same base: x+c1 vs x+c2
			if distinctOffsets(i, j) {
				cur = cur.args[0]
				continue
			}
		case OConstArr:
			return cur.args[0]
		case OIte:
			if i.op == OConst {
				return Ite(cur.args[0], Select(cur.args[1], i), Select(cur.args[2], i))
			}
		}
		break
	}
	if cur.op == OStore && i.op == OConst {
		// walked a long chain of distinct constant indices: keep the original
		// array so that the term stays shared
	}
	return TS.mk(&Term{op: OSelect, sort: BV(a.sort.W), args: []*Term{cur, i}})
}

func distinctOffsets(i, j *Term) bool {
	bi, ci := splitOff(i)
	bj, cj := splitOff(j)
	return bi == bj && ci != cj
}

func splitOff(t *Term) (*Term, uint64) {
	if t.op == OAdd && t.args[1].op == OConst {
		return t.args[0], t.args[1].val
	}
	if t.op == OConst {
		return nil, t.val
	}
	return t, 0
}

func Store(a, i, v *Term) *Term {
	if a.sort.K != SArr || i.sort != BV(a.sort.IdxW) || v.sort != BV(a.sort.W) {
		panic(fmt.Sprintf("Store: bad sorts %v[%v]=%v", a.sort, i.sort, v.sort))
	}
	if a.op == OStore && a.args[1] == i {
		return Store(a.args[0], i, v)
	}
	if a.op == OConstArr && a.args[0] == v {
		return a
	}
	return TS.mk(&Term{op: OStore, sort: a.sort, args: []*Term{a, i, v}})
}

func Apply(name string, ret Sort, args ...*Term) *Term {
	if _, ok := TS.ufs[name]; !ok {
		var ss []string
		for _, a := range args {
			ss = append(ss, a.sort.String())
		}
		TS.ufs[name] = fmt.Sprintf("(declare-fun %s (%s) %s)", smtSym(name), strings.Join(ss, " "), ret)
	}
	return TS.mk(&Term{op: OApply, sort: ret, args: args, name: name})
}

var nLambda int

// Lambda builds an array term (lambda ((i BV iw)) body(i)).
func Lambda(iw, ew int, body func(i *Term) *Term) *Term {
	nLambda++
	name := fmt.Sprintf("lam%d", nLambda)
	bv := TS.mk(&Term{op: OBound, sort: BV(iw), name: name})
	b := body(bv)
	return TS.mk(&Term{op: OLambda, sort: ArrS(iw, ew), args: []*Term{b}, name: name})
}

func PopCount(a *Term) *Term {
	if a.op == OConst {
		return Const(a.W(), uint64(bits.OnesCount64(a.val)))
	}
	w := a.W()
	sum := Const(w, 0)
	for i := 0; i < w; i++ {
		sum = Add(sum, Zext(Extract(a, i, i), w-1))
	}
	return sum
}

func smtSym(s string) string {
	ok := true
	for _, c := range s {
		if !(c >= 'a' && c <= 'z' || c >= 'A' && c <= 'Z' || c >= '0' && c <= '9' || strings.ContainsRune("_.!$-", c)) {
			ok = false
			break
		}
	}
	if ok && s != "" {
		return s
	}
	return "|" + strings.ReplaceAll(s, "|", "_") + "|"
}

// ---- printing ----

type Printer struct {
	sb      strings.Builder
	defined map[int]bool
	decl    map[string]bool
}

func NewPrinter() *Printer {
	return &Printer{defined: map[int]bool{}, decl: map[string]bool{}}
}

// rendered define-fun lines are shared between all printers
var lineCache sync.Map // term id -> string

func constStr(t *Term) string {
	if t.sort.K == SBool {
		if t.val == 1 {
			return "true"
		}
		return "false"
	}
	w := t.W()
	if w%4 == 0 {
		return fmt.Sprintf("#x%0*x", w/4, t.val)
	}
	return fmt.Sprintf("#b%0*b", w, t.val)
}

func (p *Printer) ref(t *Term) string {
	switch t.op {
	case OConst:
		return constStr(t)
	case OVar:
		return smtSym(t.name)
	case OBound:
		return t.name
	}
	if t.hasB {
		return p.expr(t)
	}
	return fmt.Sprintf("t%d", t.id)
}

func (p *Printer) expr(t *Term) string {
	switch t.op {
	case OConst, OVar, OBound:
		return p.ref(t)
	case OExtract:
		return fmt.Sprintf("((_ extract %d %d) %s)", t.hi, t.lo, p.ref(t.args[0]))
	case OZext:
		return fmt.Sprintf("((_ zero_extend %d) %s)", t.hi, p.ref(t.args[0]))
	case OSext:
		return fmt.Sprintf("((_ sign_extend %d) %s)", t.hi, p.ref(t.args[0]))
	case OConstArr:
		return fmt.Sprintf("((as const %s) %s)", t.sort, p.ref(t.args[0]))
	case OApply:
		if len(t.args) == 0 {
			return smtSym(t.name)
		}
		var ss []string
		for _, a := range t.args {
			ss = append(ss, p.ref(a))
		}
		return fmt.Sprintf("(%s %s)", smtSym(t.name), strings.Join(ss, " "))
	case OLambda:
		return fmt.Sprintf("(lambda ((%s (_ BitVec %d))) %s)", t.name, t.sort.IdxW, p.ref(t.args[0]))
	}
	var ss []string
	for _, a := range t.args {
		ss = append(ss, p.ref(a))
	}
	return fmt.Sprintf("(%s %s)", opName[t.op], strings.Join(ss, " "))
}

// Define emits declarations/definitions for everything t depends on.
func (p *Printer) Define(t *Term) {
	// iterative post-order
	type fr struct {
		t *Term
		i int
	}
	st := []fr{{t, 0}}
	for len(st) > 0 {
		f := &st[len(st)-1]
		if p.defined[f.t.id] {
			st = st[:len(st)-1]
			continue
		}
		if f.i < len(f.t.args) {
			a := f.t.args[f.i]
			f.i++
			if !p.defined[a.id] {
				st = append(st, fr{a, 0})
			}
			continue
		}
		cur := f.t
		st = st[:len(st)-1]
		p.defined[cur.id] = true
		switch cur.op {
		case OConst, OBound:
		case OVar:
			fmt.Fprintf(&p.sb, "(declare-fun %s () %s)\n", smtSym(cur.name), cur.sort)
		default:
			if cur.op == OApply && !p.decl[cur.name] {
				p.decl[cur.name] = true
				p.sb.WriteString(TS.ufs[cur.name])
				p.sb.WriteByte('\n')
			}
			if cur.hasB {
				continue // printed inline inside its lambda
			}
			if ln, ok := lineCache.Load(cur.id); ok {
				p.sb.WriteString(ln.(string))
			} else {
				ln := fmt.Sprintf("(define-fun t%d () %s %s)\n", cur.id, cur.sort, p.expr(cur))
				lineCache.Store(cur.id, ln)
				p.sb.WriteString(ln)
			}
		}
	}
}

func (p *Printer) Flush() string {
	s := p.sb.String()
	p.sb.Reset()
	return s
}

// termSize counts DAG nodes reachable from t.
func termSize(ts ...*Term) int {
	seen := map[int]bool{}
	var st []*Term
	st = append(st, ts...)
	n := 0
	for len(st) > 0 {
		t := st[len(st)-1]
		st = st[:len(st)-1]
		if seen[t.id] {
			continue
		}
		seen[t.id] = true
		n++
		st = append(st, t.args...)
	}
	return n
}

// rawAnd / rawOr build conjunctions/disjunctions without flattening (used for
// long prefix chains where flattening would be quadratic).
func rawAnd(a, b *Term) *Term {
	if a == tTrue {
		return b
	}
	if b == tTrue {
		return a
	}
	if a == tFalse || b == tFalse {
		return tFalse
	}
	return TS.mk(&Term{op: OAnd, sort: BoolSort, args: []*Term{a, b}})
}

func rawOr(xs []*Term) *Term {
	var ys []*Term
	for _, x := range xs {
		if x == tTrue {
			return tTrue
		}
		if x != tFalse {
			ys = append(ys, x)
		}
	}
	if len(ys) == 0 {
		return tFalse
	}
	if len(ys) == 1 {
		return ys[0]
	}
	return TS.mk(&Term{op: OOr, sort: BoolSort, args: ys})
}

// ---- contextual simplification under the literals of a path guard ----

// guardLits extracts literal truth values from a guard: And(l1,..,ln) gives
// each li true; Not(x) gives x false; Not(Or(a,b)) gives a,b false.
// litSubst[k] for a literal map: terms known to equal a constant (x == c).
type litSet struct {
	truth map[int]bool
	subst map[int]*Term
}

func guardLitSet(g *Term) *litSet {
	ls := &litSet{truth: guardLits(g), subst: map[int]*Term{}}
	var walk func(t *Term)
	walk = func(t *Term) {
		switch t.op {
		case OAnd:
			for _, a := range t.args {
				walk(a)
			}
		case OEq:
			a, b := t.args[0], t.args[1]
			if a.IsConst() && !b.IsConst() && b.sort.K == SBV {
				ls.subst[b.id] = a
			} else if b.IsConst() && !a.IsConst() && a.sort.K == SBV {
				ls.subst[a.id] = b
			}
		}
	}
	walk(g)
	return ls
}

func guardLits(g *Term) map[int]bool {
	lits := map[int]bool{}
	var pos func(t *Term)
	var neg func(t *Term)
	pos = func(t *Term) {
		switch t.op {
		case OConst:
		case OAnd:
			for _, a := range t.args {
				pos(a)
			}
		case ONot:
			neg(t.args[0])
		default:
			lits[t.id] = true
		}
	}
	neg = func(t *Term) {
		switch t.op {
		case OConst:
		case OOr:
			for _, a := range t.args {
				neg(a)
			}
		case ONot:
			pos(t.args[0])
		default:
			lits[t.id] = false
		}
	}
	pos(g)
	return lits
}

func rebuild(t *Term, a []*Term) *Term {
	switch t.op {
	case ONot:
		return Not(a[0])
	case OAnd:
		return And(a...)
	case OOr:
		return Or(a...)
	case OIte:
		return Ite(a[0], a[1], a[2])
	case OEq:
		return Eq(a[0], a[1])
	case OAdd, OSub, OMul, OUDiv, OURem, OSDiv, OSRem, OBAnd, OBOr, OBXor, OShl, OLshr, OAshr:
		return bin(t.op, a[0], a[1])
	case OBNot:
		return BNot(a[0])
	case ONeg:
		return Neg(a[0])
	case OUlt, OUle, OSlt, OSle:
		return cmp(t.op, a[0], a[1])
	case OConcat:
		return Concat(a[0], a[1])
	case OExtract:
		return Extract(a[0], t.hi, t.lo)
	case OZext:
		return Zext(a[0], t.hi)
	case OSext:
		return Sext(a[0], t.hi)
	case OSelect:
		return Select(a[0], a[1])
	case OStore:
		return Store(a[0], a[1], a[2])
	case OApply:
		return Apply(t.name, t.sort, a...)
	}
	return nil
}

// simplifyUnder rewrites t using known literal values (bounded effort).
func simplifyUnder(t *Term, lits map[int]bool, budget int) *Term {
	return simplifyUnderS(t, lits, nil, budget)
}

func simplifyUnderS(t *Term, lits map[int]bool, subst map[int]*Term, budget int) *Term {
	if len(lits) == 0 && len(subst) == 0 {
		return t
	}
	memo := map[int]*Term{}
	n := 0
	var rec func(t *Term, depth int) *Term
	rec = func(t *Term, depth int) *Term {
		if t.sort.K == SBool {
			if v, ok := lits[t.id]; ok {
				return Bool(v)
			}
		} else if c, ok := subst[t.id]; ok {
			return c
		}
		if len(t.args) == 0 || t.hasB || depth > 12 {
			return t
		}
		if r, ok := memo[t.id]; ok {
			return r
		}
		n++
		if n > budget {
			return t
		}
		if t.op == OLambda || t.op == OConstArr {
			return t
		}
		changed := false
		na := make([]*Term, len(t.args))
		for i, a := range t.args {
			na[i] = rec(a, depth+1)
			if na[i] != a {
				changed = true
			}
		}
		r := t
		if changed {
			if rb := rebuild(t, na); rb != nil {
				r = rb
			}
		}
		memo[t.id] = r
		return r
	}
	return rec(t, 0)
}

// debugStr renders a term as an s-expression, truncated by depth.
func debugStr(t *Term, depth int) string {
	switch t.op {
	case OConst:
		if t.sort.K == SBool {
			return constStr(t)
		}
		return fmt.Sprintf("%d", t.val)
	case OVar, OBound:
		return t.name
	}
	if depth == 0 {
		return fmt.Sprintf("t%d", t.id)
	}
	var ss []string
	for _, a := range t.args {
		ss = append(ss, debugStr(a, depth-1))
	}
	n := opName[t.op]
	switch t.op {
	case OExtract:
		n = fmt.Sprintf("extract[%d:%d]", t.hi, t.lo)
	case OZext:
		n = "zext"
	case OSext:
		n = "sext"
	case OApply:
		n = t.name
	case OConstArr:
		n = "constarr"
	case OLambda:
		n = "lambda"
	}
	return "(" + n + " " + strings.Join(ss, " ") + ")"
}

// ---- variable support sets (for cone-of-influence reduction of assumptions) ----

type bitset []uint64

func (b bitset) or(c bitset) bitset {
	if len(c) > len(b) {
		nb := make(bitset, len(c))
		copy(nb, b)
		b = nb
	}
	for i := range c {
		b[i] |= c[i]
	}
	return b
}

func (b bitset) intersects(c bitset) bool {
	n := len(b)
	if len(c) < n {
		n = len(c)
	}
	for i := 0; i < n; i++ {
		if b[i]&c[i] != 0 {
			return true
		}
	}
	return false
}

type supportCalc struct {
	index map[string]int // variable / UF symbol -> bit
	memo  map[int]bitset
}

func newSupportCalc() *supportCalc {
	return &supportCalc{index: map[string]int{}, memo: map[int]bitset{}}
}

func (sc *supportCalc) bit(name string) bitset {
	i, ok := sc.index[name]
	if !ok {
		i = len(sc.index)
		sc.index[name] = i
	}
	b := make(bitset, i/64+1)
	b[i/64] |= 1 << uint(i%64)
	return b
}

// support returns the set of free variables and uninterpreted symbols of t.
func (sc *supportCalc) support(t *Term) bitset {
	if b, ok := sc.memo[t.id]; ok {
		return b
	}
	// iterative post-order to avoid deep recursion
	type fr struct {
		t *Term
		i int
	}
	st := []fr{{t, 0}}
	for len(st) > 0 {
		f := &st[len(st)-1]
		if _, ok := sc.memo[f.t.id]; ok {
			st = st[:len(st)-1]
			continue
		}
		if f.i < len(f.t.args) {
			a := f.t.args[f.i]
			f.i++
			if _, ok := sc.memo[a.id]; !ok {
				st = append(st, fr{a, 0})
			}
			continue
		}
		cur := f.t
		st = st[:len(st)-1]
		var b bitset
		switch cur.op {
		case OVar:
			b = sc.bit("v:" + cur.name)
		case OApply:
			b = sc.bit("f:" + cur.name)
		}
		for _, a := range cur.args {
			b = append(bitset{}, b...).or(sc.memo[a.id])
		}
		sc.memo[cur.id] = b
	}
	return sc.memo[t.id]
}
