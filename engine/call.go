package main

import (
	"fmt"
	"go/token"
	"go/types"
	"strings"

	"golang.org/x/tools/go/ssa"
)

func (e *Engine) evalCallOperands(fr *frame, c *ssa.CallCommon) (Value, []Value) {
	args := make([]Value, len(c.Args))
	for i, a := range c.Args {
		args[i] = fr.val(a)
	}
	return fr.val(c.Value), args
}

func fnKey(fn *ssa.Function) string {
	if o := fn.Origin(); o != nil {
		return o.String()
	}
	return fn.String()
}

func (e *Engine) doCall(fr *frame, c *ssa.CallCommon, fnv Value, args []Value, g *Term, pos token.Pos) Value {
	if g.IsFalse() {
		return nil
	}
	if c.IsInvoke() {
		iv, ok := fnv.(*IfaceV)
		if !ok {
			panic(unsupported(fmt.Sprintf("invoke on %T", fnv)))
		}
		var gs []*Term
		for _, al := range iv.A {
			gs = append(gs, al.G)
		}
		e.panicIf(fr, g, Not(Or(gs...)), "nil interface method call: "+c.Method.Name(), pos)
		var out Value
		first := true
		for _, al := range iv.A {
			ag := And(g, al.G)
			if ag.IsFalse() {
				continue
			}
			r := e.invokeMethod(fr, al, c.Method, args, ag, pos)
			if first {
				out, first = r, false
			} else if r != nil {
				out = merge(al.G, r, out)
			}
		}
		return out
	}
	fv, ok := fnv.(*FuncV)
	if !ok {
		panic(unsupported(fmt.Sprintf("call of %T", fnv)))
	}
	var gs []*Term
	for _, al := range fv.A {
		gs = append(gs, al.G)
	}
	e.panicIf(fr, g, Not(Or(gs...)), "call of nil function", pos)
	var out Value
	first := true
	for _, al := range fv.A {
		ag := And(g, al.G)
		if ag.IsFalse() {
			continue
		}
		var r Value
		if al.Builtin != "" {
			r = e.builtin(fr, al.Builtin, c, args, ag, pos)
		} else {
			a := args
			if al.Recv != nil {
				a = append([]Value{al.Recv}, args...)
			}
			r = e.invokeFn(fr, al.Fn, a, al.Binds, ag, pos)
		}
		if first {
			out, first = r, false
		} else if r != nil {
			out = merge(al.G, r, out)
		}
	}
	return out
}

func (e *Engine) invokeMethod(fr *frame, al IfaceAlt, m *types.Func, args []Value, g *Term, pos token.Pos) Value {
	if al.Typ == opaqueErrT {
		switch m.Name() {
		case "Error":
			ov := al.Val.(*StructV)
			return e.opaqueString("errstr", ov.F[0].(*Term))
		case "Unwrap":
			return al.Val.(*StructV).F[1]
		}
		panic(unsupported("method " + m.Name() + " on opaque error"))
	}
	if h, ok := opaqueMethods[al.Typ]; ok {
		return h(e, fr, al, m.Name(), args, g, pos)
	}
	ms := e.prog.MethodSets.MethodSet(al.Typ)
	sel := ms.Lookup(m.Pkg(), m.Name())
	if sel == nil {
		panic(unsupported(fmt.Sprintf("no method %s on dynamic type %s", m.Name(), al.Typ)))
	}
	fn := e.prog.MethodValue(sel)
	if fn == nil {
		panic(unsupported(fmt.Sprintf("abstract method %s on %s", m.Name(), al.Typ)))
	}
	return e.invokeFn(fr, fn, append([]Value{al.Val}, args...), nil, g, pos)
}

func (e *Engine) invokeFn(fr *frame, fn *ssa.Function, args []Value, binds []Value, g *Term, pos token.Pos) Value {
	e.curG = g
	name := fn.String()
	key := fnKey(fn)
	// package initialisers
	if fn.Name() == "init" && fn.Synthetic == "package initializer" {
		if fn.Pkg != nil && !e.initDone[fn.Pkg] && e.shouldInit(fn.Pkg) {
			e.runInit(fn.Pkg)
		}
		return nil
	}
	// generated protobuf packages: run the variable initialisers (enum name
	// maps etc.) but none of the descriptor/registry machinery
	if n := len(e.inInit); n > 0 && strings.HasSuffix(e.inInit[n-1].Pkg.Path(), "pb") && fr != nil && fr.fn.Pkg == e.inInit[n-1] {
		return zeroResults(fn.Signature)
	}
	// harness primitives
	if fn.Pkg == e.pkg && strings.HasPrefix(fn.Name(), "v") && fn.Signature.Recv() == nil {
		if r, ok := e.harnessPrimitive(fr, fn, args, g, pos); ok {
			return r
		}
	}
	// redirects to Go-level stubs in the harness overlay
	if stub, ok := e.lookupRedirect(name, key); ok {
		sf := e.pkg.Func(stub)
		if sf == nil {
			panic(unsupported("redirect target not found in package: " + stub))
		}
		e.stubLog[name+" => "+stub]++
		if len(sf.Params) != len(args) {
			panic(unsupported(fmt.Sprintf("redirect %s => %s: arity %d vs %d", name, stub, len(args), len(sf.Params))))
		}
		return e.callFn(fr, sf, args, nil, g)
	}
	if r, ok := e.packageRule(fr, fn, args, g, pos); ok {
		return r
	}
	if h, ok := intrinsics[name]; ok {
		e.stubLog["model:"+name]++
		return h(e, fr, fn, args, g, pos)
	}
	if key != name {
		if h, ok := intrinsics[key]; ok {
			e.stubLog["model:"+key]++
			return h(e, fr, fn, args, g, pos)
		}
	}
	if fn.Pkg == nil && fn.Origin() == nil && len(fn.Blocks) > 0 {
		// synthetic wrapper / bound method / thunk: just execute
		return e.callFn(fr, fn, args, binds, g)
	}
	if len(fn.Blocks) == 0 {
		panic(unsupported("no body and no model for " + name))
	}
	return e.callFn(fr, fn, args, binds, g)
}

func (e *Engine) lookupRedirect(name, key string) (string, bool) {
	if e.spec.Redirects == nil {
		return "", false
	}
	if s, ok := e.spec.Redirects[name]; ok {
		return s, true
	}
	if s, ok := e.spec.Redirects[key]; ok {
		return s, true
	}
	return "", false
}

// ---- harness primitives ----

func (e *Engine) newNondet(tag, kind string, w int, s Sort, n int) *Term {
	k := e.nondetCount[tag]
	e.nondetCount[tag] = k + 1
	name := fmt.Sprintf("nd.%s.%d", tag, k)
	t := Var(name, s)
	gg := e.curG
	if gg == nil {
		gg = tTrue
	}
	e.nondets = append(e.nondets, &NondetVar{G: gg, Tag: tag, Name: name, Kind: kind, W: w, T: t, Len: n})
	return t
}

func constStrArg(v Value) string {
	s, ok := v.(*StrV)
	if !ok {
		panic(unsupported("tag argument must be a constant string"))
	}
	c, ok := s.concrete()
	if !ok {
		panic(unsupported("tag argument must be a constant string"))
	}
	return c
}

func constIntArg(v Value) int {
	t, ok := v.(*Term)
	if !ok || !t.IsConst() {
		panic(unsupported("argument must be a constant integer"))
	}
	return int(sx(t.val, t.W()))
}

func (e *Engine) harnessPrimitive(fr *frame, fn *ssa.Function, args []Value, g *Term, pos token.Pos) (Value, bool) {
	switch fn.Name() {
	case "vNondetBool":
		return e.newNondet(constStrArg(args[0]), "bool", 1, BoolSort, 0), true
	case "vNondetU8", "vNondetU16", "vNondetU32", "vNondetU64", "vNondetInt", "vNondetI32", "vNondetI64", "vNondetI8", "vNondetI16":
		w, _, _ := intWidth(fn.Signature.Results().At(0).Type())
		return e.newNondet(constStrArg(args[0]), "bv", w, BV(w), 0), true
	case "vNondetBytes":
		tag := constStrArg(args[0])
		n := constIntArg(args[1])
		a := e.newNondet(tag, "bytes", 8, ArrS(64, 8), n)
		o := newObject("nondet:"+tag, types.NewArray(types.Typ[types.Uint8], int64(n)), &ArrV{T: a, N: c64(int64(n)), EW: 8})
		return &SliceV{Arr: ptrTo(o), Off: c64(0), Len: c64(int64(n)), Cap: c64(int64(n))}, true
	case "vNondetString":
		tag := constStrArg(args[0])
		n := constIntArg(args[1])
		a := e.newNondet(tag, "bytes", 8, ArrS(64, 8), n)
		l := e.newNondet(tag+".len", "bv", 64, BV(64), 0)
		e.assume(Implies(g, Ule(l, c64(int64(n)))))
		setKnownUB(l, uint64(n))
		return &StrV{Len: l, Data: a, Max: n}, true
	case "vAssume":
		c := args[0].(*Term)
		e.assume(Implies(g, c))
		if g.IsTrue() {
			e.addGlobalLits(c)
		}
		return nil, true
	case "vAssert":
		label := constStrArg(args[1])
		c := fr.ctx(args[0].(*Term), g)
		e.oblige("assert", label, And(g, Not(c)), pos, fr.fn.String())
		e.assumeFact(Implies(g, c))
		if g.IsTrue() {
			e.addGlobalLits(c)
		}
		return nil, true
	case "vReach":
		e.oblige("reach", constStrArg(args[0]), g, pos, fr.fn.String())
		return nil, true
	case "vNote":
		e.note(constStrArg(args[0]))
		return nil, true
	case "vPopCount64":
		return PopCount(args[0].(*Term)), true
	case "vUF64":
		// uninterpreted function of up to 4 uint64 arguments, named by tag
		tag := constStrArg(args[0])
		var ts []*Term
		if sl, ok := args[1].(*SliceV); ok {
			for i := 0; i < int(sl.Len.val); i++ {
				ts = append(ts, e.sliceElem(sl, c64(int64(i))).(*Term))
			}
		}
		return Apply(fmt.Sprintf("uf.%s.%d", tag, len(ts)), BV(64), ts...), true
	case "vNow":
		return e.timeNow(g), true
	case "vSince":
		return e.timeSub(e.timeNow(g), args[0]), true
	case "vPeek":
		return tFalse, true
	case "vNative":
		return tFalse, true
	case "vKnown":
		id := constStrArg(args[0])
		for _, k := range e.spec.KnownOpen {
			if k == id {
				e.note("known finding " + id + " is listed as open: its region is excluded here and checked by its own harness")
				return tTrue, true
			}
		}
		return tFalse, true
	}
	return nil, false
}

// ---- builtins ----

func (e *Engine) builtin(fr *frame, name string, c *ssa.CallCommon, args []Value, g *Term, pos token.Pos) Value {
	switch name {
	case "len":
		switch x := args[0].(type) {
		case *SliceV:
			return x.Len
		case *StrV:
			return x.Len
		case *MapV:
			return e.mapLen(x)
		case *ChanV:
			return e.chanCount(x)
		case *PtrV:
			at := c.Args[0].Type().Underlying().(*types.Pointer).Elem().Underlying().(*types.Array)
			return c64(at.Len())
		case *ArrV:
			return x.N
		case *VecV:
			return c64(int64(len(x.E)))
		}
	case "cap":
		switch x := args[0].(type) {
		case *SliceV:
			return x.Cap
		case *ChanV:
			if len(x.T) == 1 {
				return c64(int64(x.T[0].Obj.ch.cap))
			}
		case *PtrV:
			at := c.Args[0].Type().Underlying().(*types.Pointer).Elem().Underlying().(*types.Array)
			return c64(at.Len())
		}
	case "append":
		return e.appendOp(fr, args[0].(*SliceV), args[1], c.Args[0].Type(), g, pos)
	case "copy":
		return e.copyOp(fr, args[0].(*SliceV), args[1], g, pos)
	case "delete":
		e.mapDelete(fr, args[0].(*MapV), args[1], g)
		return nil
	case "close":
		ch := args[0].(*ChanV)
		e.panicIf(fr, g, isNilTargets(ch.T), "close of nil channel", pos)
		for _, t := range ch.T {
			tg := And(g, t.G)
			cd := t.Obj.ch
			e.panicIf(fr, tg, cd.closed, "close of closed channel", pos)
			cd.closed = Or(cd.closed, tg)
		}
		return nil
	case "print", "println":
		return nil
	case "recover":
		return &IfaceV{}
	case "min", "max":
		_, sg, _ := intWidth(c.Args[0].Type())
		r := args[0].(*Term)
		for _, a := range args[1:] {
			y := a.(*Term)
			var lt *Term
			if sg {
				lt = Slt(y, r)
			} else {
				lt = Ult(y, r)
			}
			if name == "max" {
				lt = Not(Or(lt, Eq(y, r)))
			}
			r = Ite(lt, y, r)
		}
		return r
	case "ssa:wrapnilchk":
		p := args[0].(*PtrV)
		e.panicIf(fr, g, p.isNil(), "nil receiver in method wrapper", pos)
		return p
	case "clear":
		if m, ok := args[0].(*MapV); ok {
			for _, t := range m.T {
				for i := range t.Obj.mp.entries {
					t.Obj.mp.entries[i].G = And(t.Obj.mp.entries[i].G, Not(And(g, t.G)))
				}
			}
			return nil
		}
	}
	panic(unsupported(fmt.Sprintf("builtin %s on %T", name, args[0])))
}

func isNilTargets(ts []PtrTarget) *Term {
	var gs []*Term
	for _, t := range ts {
		gs = append(gs, t.G)
	}
	return Not(Or(gs...))
}

func (e *Engine) appendOp(fr *frame, s *SliceV, more Value, st types.Type, g *Term, pos token.Pos) Value {
	elemT := st.Underlying().(*types.Slice).Elem()
	var mlen *Term
	switch m := more.(type) {
	case *SliceV:
		mlen = m.Len
	case *StrV:
		mlen = m.Len
	}
	if mlen.IsConst() && mlen.val == 0 {
		return s
	}
	newLen := Add(s.Len, mlen)
	if isScalarT(elemT) {
		w, sg, _ := intWidth(elemT)
		var base *Term
		if len(s.Arr.T) == 0 {
			base = ConstArr(64, w, Const(w, 0))
		} else {
			a := e.sliceArr(s)
			base = a.T
			if !(s.Off.IsConst() && s.Off.val == 0) {
				mx := 1 << 20
				if s.Len.IsConst() {
					mx = int(s.Len.val)
				}
				base = shiftArr(a.T, s.Off, mx, w)
			}
		}
		var src, soff *Term
		switch m := more.(type) {
		case *SliceV:
			if len(m.Arr.T) == 0 {
				return s
			}
			src, soff = e.sliceArr(m).T, m.Off
		case *StrV:
			src, soff = m.Data, c64(0)
		}
		abound := umax(mlen)
		switch m := more.(type) {
		case *SliceV:
			if b := umax(e.sliceArr(m).N); b < abound {
				abound = b
			}
		case *StrV:
			if uint64(m.Max) < abound {
				abound = uint64(m.Max)
			}
		}
		nt := arrCopyB(base, s.Len, src, soff, mlen, w, abound)
		ncap := Ite(Ule(newLen, s.Cap), s.Cap, newLen)
		o := newObject("append", types.NewArray(elemT, 0), &ArrV{T: nt, N: ncap, EW: w, Signed: sg})
		return &SliceV{Arr: ptrTo(o), Off: c64(0), Len: newLen, Cap: ncap}
	}
	m := more.(*SliceV)
	if !m.Len.IsConst() {
		panic(unsupported("append of symbolic number of non-scalar elements"))
	}
	k := int(m.Len.val)
	// bound for the old length
	if !s.Len.IsConst() {
		// symbolic old length over a concrete-capacity vector: place elements with guards
		mx := int(umax(s.Len))
		if mx > 64 {
			panic(unsupported("append to non-scalar slice with unbounded symbolic length"))
		}
		v := &VecV{E: make([]Value, mx+k)}
		for i := range v.E {
			v.E[i] = zeroValue(elemT)
		}
		for i := 0; i < mx; i++ {
			v.E[i] = e.sliceElem(s, c64(int64(i)))
		}
		for j := 0; j < k; j++ {
			ev := e.sliceElem(m, c64(int64(j)))
			for p := j; p <= mx+j && p < len(v.E); p++ {
				v.E[p] = merge(Eq(s.Len, c64(int64(p-j))), ev, v.E[p])
			}
		}
		o := newObject("append", types.NewArray(elemT, int64(len(v.E))), v)
		return &SliceV{Arr: ptrTo(o), Off: c64(0), Len: newLen, Cap: c64(int64(len(v.E)))}
	}
	n := int(s.Len.val)
	v := &VecV{E: make([]Value, n+k)}
	for i := 0; i < n; i++ {
		v.E[i] = e.sliceElem(s, c64(int64(i)))
	}
	for j := 0; j < k; j++ {
		v.E[n+j] = e.sliceElem(m, c64(int64(j)))
	}
	o := newObject("append", types.NewArray(elemT, int64(n+k)), v)
	return &SliceV{Arr: ptrTo(o), Off: c64(0), Len: newLen, Cap: newLen}
}

// sliceElem reads s[i] (no bounds obligation).
func (e *Engine) sliceElem(s *SliceV, i *Term) Value {
	p := s.Arr.extend(PathElem{Idx: Add(s.Off, i)})
	var out Value
	for k := len(p.T) - 1; k >= 0; k-- {
		t := p.T[k]
		v := readPath(t.Obj.val, t.Path)
		if out == nil {
			out = v
		} else {
			out = merge(t.G, v, out)
		}
	}
	return out
}

func (e *Engine) copyOp(fr *frame, dst *SliceV, srcv Value, g *Term, pos token.Pos) Value {
	var slen *Term
	switch s := srcv.(type) {
	case *SliceV:
		slen = s.Len
	case *StrV:
		slen = s.Len
	}
	n := Ite(Ult(slen, dst.Len), slen, dst.Len)
	if n.IsConst() && n.val == 0 {
		return n
	}
	if len(dst.Arr.T) == 0 {
		return n
	}
	// scalar destination?
	isScalar := false
	if _, ok := readPath(dst.Arr.T[0].Obj.val, dst.Arr.T[0].Path).(*ArrV); ok {
		isScalar = true
	}
	if isScalar {
		var src, soff *Term
		switch s := srcv.(type) {
		case *SliceV:
			if len(s.Arr.T) == 0 {
				return n
			}
			src, soff = e.sliceArr(s).T, s.Off
		case *StrV:
			src, soff = s.Data, c64(0)
		}
		bound := umax(n)
		if sv, ok := srcv.(*SliceV); ok {
			if b := umax(e.sliceArr(sv).N); b < bound {
				bound = b
			}
		} else if st, ok := srcv.(*StrV); ok && uint64(st.Max) < bound {
			bound = uint64(st.Max)
		}
		e.updateSliceArr(fr, dst, g, func(old *ArrV) *Term {
			b := bound
			if ob := umax(old.N); ob < b {
				b = ob
			}
			return arrCopyB(old.T, dst.Off, src, soff, n, old.EW, b)
		})
		return n
	}
	s := srcv.(*SliceV)
	if !n.IsConst() {
		panic(unsupported("copy of symbolic number of non-scalar elements"))
	}
	vals := make([]Value, n.val)
	for i := range vals {
		vals[i] = e.sliceElem(s, c64(int64(i)))
	}
	for i := range vals {
		e.store(fr, dst.Arr.extend(PathElem{Idx: Add(dst.Off, c64(int64(i)))}), vals[i], g, pos)
	}
	return n
}

// ---- maps ----

func (e *Engine) keyEq(a, b Value) *Term { return e.valEq(a, b) }

func (e *Engine) mapLookupData(md *MapData, key Value) (Value, *Term) {
	var v Value = zeroValue(md.valT)
	found := tFalse
	for _, en := range md.entries {
		hit := And(en.G, e.keyEq(en.Key, key))
		if hit.IsFalse() {
			continue
		}
		v = merge(hit, en.Val, v)
		found = Or(found, hit)
	}
	return v, found
}

func (e *Engine) lookup(fr *frame, x *ssa.Lookup, g *Term) Value {
	switch m := fr.val(x.X).(type) {
	case *StrV:
		idx := e.toIdx(fr.val(x.Index), x.Index.Type())
		e.panicIf(fr, g, Not(Ult(idx, m.Len)), "string index out of range", x.Pos())
		return Select(m.Data, idx)
	case *MapV:
		key := fr.val(x.Index)
		mt := x.X.Type().Underlying().(*types.Map)
		var val Value = zeroValue(mt.Elem())
		found := tFalse
		for _, t := range m.T {
			v, f := e.mapLookupData(t.Obj.mp, key)
			val = merge(And(t.G, f), v, val)
			found = Or(found, And(t.G, f))
		}
		if x.CommaOk {
			return &StructV{F: []Value{val, found}}
		}
		return val
	}
	panic(unsupported("Lookup"))
}

func (e *Engine) mapUpdate(fr *frame, m *MapV, key, val Value, g *Term, pos token.Pos) {
	e.panicIf(fr, g, isNilTargets(m.T), "assignment to entry in nil map", pos)
	for _, t := range m.T {
		tg := And(g, t.G)
		if tg.IsFalse() {
			continue
		}
		md := t.Obj.mp
		exists := tFalse
		for i := range md.entries {
			en := &md.entries[i]
			hit := And(en.G, e.keyEq(en.Key, key))
			if hit.IsFalse() {
				continue
			}
			en.Val = merge(And(tg, hit), val, en.Val)
			exists = Or(exists, hit)
		}
		ng := And(tg, Not(exists))
		if !ng.IsFalse() {
			md.entries = append(md.entries, MapEntry{G: ng, Key: key, Val: val})
		}
	}
}

func (e *Engine) mapDelete(fr *frame, m *MapV, key Value, g *Term) {
	for _, t := range m.T {
		tg := And(g, t.G)
		md := t.Obj.mp
		for i := range md.entries {
			en := &md.entries[i]
			hit := And(tg, e.keyEq(en.Key, key))
			en.G = And(en.G, Not(hit))
		}
	}
}

func (e *Engine) mapLen(m *MapV) *Term {
	n := c64(0)
	for _, t := range m.T {
		for _, en := range t.Obj.mp.entries {
			n = Add(n, Ite(And(t.G, en.G), c64(1), c64(0)))
		}
	}
	return n
}

// ---- range ----

type IterV struct {
	kind    string // map | string
	entries []MapEntry
	ranks   []*Term
	total   *Term
	str     *StrV
	pos     int
	keyT    types.Type
	valT    types.Type
}

func (e *Engine) rangeInit(fr *frame, x *ssa.Range, g *Term) Value {
	switch m := fr.val(x.X).(type) {
	case *MapV:
		mt := x.X.Type().Underlying().(*types.Map)
		it := &IterV{kind: "map", keyT: mt.Key(), valT: mt.Elem()}
		rank := c64(0)
		for _, t := range m.T {
			for _, en := range t.Obj.mp.entries {
				pg := And(t.G, en.G)
				if pg.IsFalse() {
					continue
				}
				it.entries = append(it.entries, MapEntry{G: pg, Key: en.Key, Val: en.Val})
				it.ranks = append(it.ranks, rank)
				rank = Add(rank, Ite(pg, c64(1), c64(0)))
			}
		}
		it.total = rank
		e.note("map iteration order = insertion order (order-dependent behaviour outside the claim)")
		return it
	case *StrV:
		e.note("range over string treats each byte as one rune (non-ASCII outside the claim)")
		return &IterV{kind: "string", str: m}
	}
	panic(unsupported("range over " + x.X.Type().String()))
}

func (e *Engine) rangeNext(fr *frame, x *ssa.Next, g *Term) Value {
	it := fr.val(x.Iter).(*IterV)
	j := it.pos
	it.pos++
	if x.IsString {
		jj := c64(int64(j))
		ok := Ult(jj, it.str.Len)
		r := Zext(Select(it.str.Data, jj), 24)
		return &StructV{F: []Value{ok, jj, r}}
	}
	jj := c64(int64(j))
	ok := Ult(jj, it.total)
	var k Value = zeroValue(it.keyT)
	var v Value = zeroValue(it.valT)
	for i := len(it.entries) - 1; i >= 0; i-- {
		if i < j {
			break // rank(i) <= i < j
		}
		sel := And(it.entries[i].G, Eq(it.ranks[i], jj))
		k = merge(sel, it.entries[i].Key, k)
		v = merge(sel, it.entries[i].Val, v)
	}
	return &StructV{F: []Value{ok, k, v}}
}

// ---- channels ----

func (e *Engine) chanCount(c *ChanV) *Term {
	var out *Term = c64(0)
	for _, t := range c.T {
		out = Ite(t.G, t.Obj.ch.count, out)
	}
	return out
}

func (e *Engine) blocked(fr *frame, g *Term, what string, pos token.Pos) {
	if g.IsFalse() {
		return
	}
	if e.spec.IgnoreBlocked {
		e.note("paths that block forever (" + what + ") are not examined in this harness")
		e.assume(Not(g))
		return
	}
	e.oblige("blocked", what, g, pos, fr.fn.String())
	e.assumeFact(Not(g))
}

func (e *Engine) chanSend(fr *frame, c *ChanV, v Value, g *Term, pos token.Pos) {
	e.blocked(fr, And(g, isNilTargets(c.T)), "send on nil channel blocks forever", pos)
	for _, t := range c.T {
		tg := And(g, t.G)
		if tg.IsFalse() {
			continue
		}
		cd := t.Obj.ch
		e.panicIf(fr, tg, cd.closed, "send on closed channel", pos)
		full := Uge(cd.count, c64(int64(cd.cap)))
		e.blocked(fr, And(tg, full), "send blocks: channel full and no receiver modelled", pos)
		e.chanPush(cd, v, tg)
	}
}

func (e *Engine) chanPush(cd *ChanData, v Value, g *Term) {
	if !isZeroSize(cd.elemT) {
		// place v at position count (concrete positions 0..cap-1)
		for len(cd.elems) < cd.cap {
			cd.elems = append(cd.elems, zeroValue(cd.elemT))
		}
		for i := 0; i < cd.cap; i++ {
			cd.elems[i] = merge(And(g, Eq(cd.count, c64(int64(i)))), v, cd.elems[i])
		}
	}
	cd.count = Ite(g, Add(cd.count, c64(1)), cd.count)
}

func (e *Engine) chanPop(cd *ChanData, g *Term) Value {
	var v Value
	if !isZeroSize(cd.elemT) {
		for len(cd.elems) < cd.cap {
			cd.elems = append(cd.elems, zeroValue(cd.elemT))
		}
		if cd.cap > 0 {
			v = merge(Ugt(cd.count, c64(0)), cd.elems[0], zeroValue(cd.elemT))
			// shift
			for i := 0; i+1 < cd.cap; i++ {
				cd.elems[i] = merge(And(g, Ugt(cd.count, c64(0))), cd.elems[i+1], cd.elems[i])
			}
		} else {
			v = zeroValue(cd.elemT)
		}
	} else {
		v = zeroValue(cd.elemT)
	}
	cd.count = Ite(And(g, Ugt(cd.count, c64(0))), Sub(cd.count, c64(1)), cd.count)
	return v
}

func isZeroSize(t types.Type) bool {
	s, ok := t.Underlying().(*types.Struct)
	return ok && s.NumFields() == 0
}

func (e *Engine) chanRecv(fr *frame, c *ChanV, commaOk bool, g *Term, pos token.Pos) Value {
	e.blocked(fr, And(g, isNilTargets(c.T)), "receive on nil channel blocks forever", pos)
	var val Value
	okT := tFalse
	for _, t := range c.T {
		tg := And(g, t.G)
		if tg.IsFalse() {
			continue
		}
		cd := t.Obj.ch
		has := Ugt(cd.count, c64(0))
		e.blocked(fr, And(tg, Not(has), Not(cd.closed)), "receive blocks: channel empty and not closed", pos)
		v := e.chanPop(cd, tg)
		if val == nil {
			val = v
		} else {
			val = merge(t.G, v, val)
		}
		okT = Ite(t.G, has, okT)
	}
	if val == nil {
		return nil
	}
	if commaOk {
		return &StructV{F: []Value{val, okT}}
	}
	return val
}

func (e *Engine) selectOp(fr *frame, x *ssa.Select, g *Term) Value {
	n := len(x.States)
	ready := make([]*Term, n)
	chans := make([]*ChanV, n)
	for i, st := range x.States {
		c := fr.val(st.Chan).(*ChanV)
		chans[i] = c
		r := tFalse
		for _, t := range c.T {
			cd := t.Obj.ch
			if st.Dir == types.RecvOnly {
				r = Or(r, And(t.G, Or(cd.closed, Ugt(cd.count, c64(0)))))
			} else {
				r = Or(r, And(t.G, Or(cd.closed, Ult(cd.count, c64(int64(cd.cap))))))
			}
		}
		ready[i] = r
	}
	any := Or(ready...)
	idx := e.newNondet("select@"+e.posStr(x.Pos()), "bv", 64, BV(64), 0)
	var choice []*Term
	for i := range ready {
		choice = append(choice, And(Eq(idx, c64(int64(i))), ready[i]))
	}
	if x.Blocking {
		e.blocked(fr, And(g, Not(any)), "select blocks: no case ready", x.Pos())
		e.assume(Implies(g, Or(choice...)))
	} else {
		e.assume(Implies(g, Or(And(any, Or(choice...)), And(Not(any), Eq(idx, Const(64, ^uint64(0)))))))
	}
	out := &StructV{F: []Value{idx, tFalse}}
	recvOk := tFalse
	for i, st := range x.States {
		ig := And(g, Eq(idx, c64(int64(i))))
		if st.Dir == types.RecvOnly {
			var val Value
			for _, t := range chans[i].T {
				tg := And(ig, t.G)
				cd := t.Obj.ch
				has := Ugt(cd.count, c64(0))
				v := e.chanPop(cd, tg)
				if val == nil {
					val = v
				} else {
					val = merge(t.G, v, val)
				}
				recvOk = Ite(tg, has, recvOk)
			}
			if val == nil {
				val = zeroValue(st.Chan.Type().Underlying().(*types.Chan).Elem())
			}
			out.F = append(out.F, val)
		} else {
			for _, t := range chans[i].T {
				tg := And(ig, t.G)
				e.panicIf(fr, tg, t.Obj.ch.closed, "send on closed channel (select)", x.Pos())
				e.chanPush(t.Obj.ch, fr.val(st.Send), tg)
			}
		}
	}
	out.F[1] = recvOk
	return out
}

func (e *Engine) posStr(p token.Pos) string {
	if !p.IsValid() {
		return "?"
	}
	pp := e.fset.Position(p)
	return fmt.Sprintf("%s:%d", shortPath(pp.Filename), pp.Line)
}

func (e *Engine) addGlobalLits(c *Term) {
	if e.globalLits == nil {
		e.globalLits = map[int]bool{}
	}
	ls := guardLitSet(c)
	for k, v := range ls.truth {
		e.globalLits[k] = v
	}
	if e.globalSubst == nil {
		e.globalSubst = map[int]*Term{}
	}
	for k, v := range ls.subst {
		e.globalSubst[k] = v
	}
	e.globalLitV++
	learnBounds(c)
}

// learnBounds records x <= c facts from an unconditional assumption such as
// (x >= 0 && x <= 10): needs both the sign and the upper bound for signed x.
func learnBounds(c *Term) {
	var conj []*Term
	if c.op == OAnd {
		conj = c.args
	} else {
		conj = []*Term{c}
	}
	nonneg := map[int]bool{}
	for _, l := range conj {
		// x >= 0 appears as Not(Slt(x, 0)) or Sle(0, x)
		if l.op == ONot && l.args[0].op == OSlt && l.args[0].args[1].IsConst() && l.args[0].args[1].val == 0 {
			nonneg[l.args[0].args[0].id] = true
		}
		if l.op == OSle && l.args[0].IsConst() && sx(l.args[0].val, l.args[0].W()) >= 0 {
			nonneg[l.args[1].id] = true
		}
		if l.op == ONot && l.args[0].op == OSlt && l.args[0].args[1].IsConst() && sx(l.args[0].args[1].val, l.args[0].args[1].W()) >= 0 {
			nonneg[l.args[0].args[0].id] = true // x >= c >= 0
		}
	}
	for _, l := range conj {
		switch l.op {
		case OUle:
			if l.args[1].IsConst() {
				setKnownUB(l.args[0], l.args[1].val)
			}
		case OUlt:
			if l.args[1].IsConst() && l.args[1].val > 0 {
				setKnownUB(l.args[0], l.args[1].val-1)
			}
		case OSle:
			if l.args[1].IsConst() && nonneg[l.args[0].id] && sx(l.args[1].val, l.args[1].W()) >= 0 {
				setKnownUB(l.args[0], l.args[1].val)
			}
		case OSlt:
			if l.args[1].IsConst() && nonneg[l.args[0].id] && sx(l.args[1].val, l.args[1].W()) > 0 {
				setKnownUB(l.args[0], l.args[1].val-1)
			}
		case ONot:
			// !(c < x)  i.e. x <= c
			in := l.args[0]
			if in.op == OSlt && in.args[0].IsConst() && nonneg[in.args[1].id] && sx(in.args[0].val, in.args[0].W()) >= 0 {
				setKnownUB(in.args[1], in.args[0].val)
			}
			if in.op == OUlt && in.args[0].IsConst() {
				setKnownUB(in.args[1], in.args[0].val)
			}
		}
	}
}
