package main

// Integer model of package time.  A time.Time value is the struct
// {wall, ext, loc} with  wall = nanoseconds within the second (0..1e9-1),
// ext = Unix seconds, loc = nil.  Every Time method mieru uses is modelled
// here, so the real bodies never see this encoding.  The zero Time is the
// Unix epoch (in reality: year 1); instants handled are 1970..~4100.
// Round/Truncate by whole seconds d use that the real zero time is a multiple
// of d before the Unix epoch for every d dividing 86400 s (62135596800 =
// 86400*719162).  Duration overflow/saturation in Sub is not modelled.

import (
	"go/types"
	"go/token"

	"golang.org/x/tools/go/ssa"
)

const nsPerS = 1000000000

// ---- single-value time models (HarnessSpec.TimeUnit = "ns" or "ms") ----
// A Time is {wall = 0, ext = instants in the unit since the Unix epoch}.  They
// avoid the seconds/nanoseconds split where a harness needs no calendar
// arithmetic ("ns": Now/Add/Sub/Since/After only) or works in milliseconds
// throughout ("ms": the metrics counter).  Sub-unit precision is dropped in
// "ms" mode (stated in the evidence notes).
func (e *Engine) unitNs() int64 {
	switch e.spec.TimeUnit {
	case "ns":
		return 1
	case "ms":
		return 1000000
	}
	return 0
}

func uTime(v *Term) *StructV { return &StructV{F: []Value{c64(0), v, nilPtr}} }
func uVal(v Value) *Term     { return v.(*StructV).F[1].(*Term) }

func (e *Engine) uNow(g *Term) *StructV {
	u := e.unitNs()
	v := e.newNondet("time.Now."+e.spec.TimeUnit, "bv", 64, BV(64), 0)
	lo, hi := e.spec.ClockMin, e.spec.ClockMax
	if lo == 0 && hi == 0 {
		lo, hi = 1577836800, 4102444800
	}
	per := int64(nsPerS) / u
	e.assume(And(Sge(v, c64(lo*per)), Slt(v, c64(hi*per))))
	setKnownUB(v, uint64(hi*per))
	if e.lastNowSec != nil && !e.spec.NonMonotonicClock {
		e.assume(Implies(g, Sle(e.lastNowSec, v)))
	}
	if e.lastNowSec != nil {
		e.lastNowSec = Ite(g, v, e.lastNowSec)
	} else {
		e.lastNowSec = v
	}
	return uTime(v)
}

// uDur converts a Duration (ns) to the unit (truncating toward zero).
func (e *Engine) uDur(d *Term) *Term {
	u := e.unitNs()
	if u == 1 {
		return d
	}
	if d.IsConst() {
		return c64(sx(d.val, 64) / u)
	}
	return SDiv(d, c64(u))
}

func (e *Engine) uTrunc(v *Term, d *Term, round bool) *Term {
	u := e.unitNs()
	if !d.IsConst() || sx(d.val, 64) <= 0 || sx(d.val, 64)%u != 0 {
		panic(unsupported("Time.Round/Truncate with this duration in the single-value time model"))
	}
	k := uint64(sx(d.val, 64) / u)
	if k == 1 {
		return v
	}
	r := URem(v, Const(64, k))
	down := Sub(v, r)
	if !round {
		return down
	}
	return Ite(Uge(Add(r, r), Const(64, k)), Add(down, Const(64, k)), down)
}

func mkTime(sec, ns *Term) *StructV {
	return &StructV{F: []Value{ns, sec, nilPtr}}
}

func timeParts(v Value) (sec, ns *Term) {
	s := v.(*StructV)
	return s.F[1].(*Term), s.F[0].(*Term)
}

// divmodConst returns q, r with x = q*c + r, 0 <= r < c (floor division of a
// signed x in a bounded range) through fresh witnesses instead of a divider.
func (e *Engine) divmodConst(x *Term, c uint64, tag string) (*Term, *Term) {
	if x.IsConst() {
		xv := sx(x.val, 64)
		q := xv / int64(c)
		r := xv % int64(c)
		if r < 0 {
			r += int64(c)
			q--
		}
		return c64(q), c64(r)
	}
	q := Fresh("divq."+tag, BV(64))
	r := Fresh("divr."+tag, BV(64))
	lim := int64(1) << 62 / int64(c)
	e.assume(And(Eq(x, Add(Mul(q, Const(64, c)), r)), Ult(r, Const(64, c)), Sle(q, c64(lim)), Sge(q, c64(-lim))))
	return q, r
}

func (e *Engine) timeAdd(sec, ns, d *Term) *StructV {
	dq, dr := e.divmodConst(d, nsPerS, "add")
	n2 := Add(ns, dr)
	carry := Uge(n2, Const(64, nsPerS))
	return mkTime(Add(Add(sec, dq), Ite(carry, c64(1), c64(0))), Ite(carry, Sub(n2, Const(64, nsPerS)), n2))
}

func timeLess(s1, n1, s2, n2 *Term) *Term {
	return Or(Slt(s1, s2), And(Eq(s1, s2), Ult(n1, n2)))
}

func (e *Engine) timeNow(g *Term) *StructV {
	if e.unitNs() != 0 {
		return e.uNow(g)
	}
	sec := e.newNondet("time.Now.sec", "bv", 64, BV(64), 0)
	ns := e.newNondet("time.Now.ns", "bv", 64, BV(64), 0)
	lo, hi := e.spec.ClockMin, e.spec.ClockMax
	if lo == 0 && hi == 0 {
		lo, hi = 1577836800, 4102444800 // 2020-01-01 .. 2100-01-01
	}
	e.assume(And(Ult(ns, Const(64, nsPerS)), Sge(sec, c64(lo)), Slt(sec, c64(hi))))
	if e.lastNowSec != nil && !e.spec.NonMonotonicClock {
		e.assume(Implies(g, Not(timeLess(sec, ns, e.lastNowSec, e.lastNowNs))))
	}
	// the "previous reading" is path dependent: a reading in a branch that is
	// not taken must not break the chain
	if e.lastNowSec != nil {
		e.lastNowSec, e.lastNowNs = Ite(g, sec, e.lastNowSec), Ite(g, ns, e.lastNowNs)
	} else {
		e.lastNowSec, e.lastNowNs = sec, ns
	}
	return mkTime(sec, ns)
}

func (e *Engine) timeSub(a, b Value) *Term {
	if u := e.unitNs(); u != 0 {
		d := Sub(uVal(a), uVal(b))
		if u == 1 {
			return d
		}
		return Mul(d, c64(u))
	}
	s1, n1 := timeParts(a)
	s2, n2 := timeParts(b)
	return Add(Mul(Sub(s1, s2), Const(64, nsPerS)), Sub(n1, n2))
}

func (e *Engine) timeRound(v Value, d *Term, round bool) Value {
	if e.unitNs() != 0 {
		return uTime(e.uTrunc(uVal(v), d, round))
	}
	sec, ns := timeParts(v)
	if !d.IsConst() {
		panic(unsupported("Time.Round/Truncate with symbolic duration"))
	}
	dv := sx(d.val, 64)
	if dv <= 0 {
		return v
	}
	if dv%nsPerS == 0 && 86400%(dv/nsPerS) == 0 {
		ds := uint64(dv / nsPerS)
		r := URem(sec, Const(64, ds)) // sec >= 0 in the model
		down := Sub(sec, r)
		if !round {
			return mkTime(down, c64(0))
		}
		// halves round up: r*1e9+ns >= d/2  <=>  2*(r*1e9+ns) >= d
		var up *Term
		if ds%2 == 0 {
			up = Uge(r, Const(64, ds/2))
		} else {
			up = Or(Ugt(r, Const(64, ds/2)), And(Eq(r, Const(64, ds/2)), Uge(ns, Const(64, nsPerS/2))))
		}
		return mkTime(Ite(up, Add(down, Const(64, ds)), down), c64(0))
	}
	if dv < nsPerS && nsPerS%dv == 0 {
		r := URem(ns, Const(64, uint64(dv)))
		down := Sub(ns, r)
		if !round {
			return mkTime(sec, down)
		}
		up := Uge(Add(r, r), Const(64, uint64(dv)))
		n2 := Ite(up, Add(down, Const(64, uint64(dv))), down)
		carry := Uge(n2, Const(64, nsPerS))
		return mkTime(Ite(carry, Add(sec, c64(1)), sec), Ite(carry, c64(0), n2))
	}
	panic(unsupported("Time.Round/Truncate with this duration"))
}

func init() {
	type I = intrinsic
	intrinsics["time.Now"] = func(e *Engine, fr *frame, fn *ssa.Function, args []Value, g *Term, pos token.Pos) Value {
		return e.timeNow(g)
	}
	intrinsics["time.Since"] = func(e *Engine, fr *frame, fn *ssa.Function, args []Value, g *Term, pos token.Pos) Value {
		return e.timeSub(e.timeNow(g), args[0])
	}
	intrinsics["time.Until"] = func(e *Engine, fr *frame, fn *ssa.Function, args []Value, g *Term, pos token.Pos) Value {
		return e.timeSub(args[0], e.timeNow(g))
	}
	intrinsics["(time.Time).Sub"] = func(e *Engine, fr *frame, fn *ssa.Function, args []Value, g *Term, pos token.Pos) Value {
		return e.timeSub(args[0], args[1])
	}
	intrinsics["(time.Time).Add"] = func(e *Engine, fr *frame, fn *ssa.Function, args []Value, g *Term, pos token.Pos) Value {
		sec, ns := timeParts(args[0])
		return e.timeAdd(sec, ns, args[1].(*Term))
	}
	intrinsics["(time.Time).Before"] = func(e *Engine, fr *frame, fn *ssa.Function, args []Value, g *Term, pos token.Pos) Value {
		s1, n1 := timeParts(args[0])
		s2, n2 := timeParts(args[1])
		return timeLess(s1, n1, s2, n2)
	}
	intrinsics["(time.Time).After"] = func(e *Engine, fr *frame, fn *ssa.Function, args []Value, g *Term, pos token.Pos) Value {
		s1, n1 := timeParts(args[0])
		s2, n2 := timeParts(args[1])
		return timeLess(s2, n2, s1, n1)
	}
	intrinsics["(time.Time).Equal"] = func(e *Engine, fr *frame, fn *ssa.Function, args []Value, g *Term, pos token.Pos) Value {
		s1, n1 := timeParts(args[0])
		s2, n2 := timeParts(args[1])
		return And(Eq(s1, s2), Eq(n1, n2))
	}
	intrinsics["(time.Time).Compare"] = func(e *Engine, fr *frame, fn *ssa.Function, args []Value, g *Term, pos token.Pos) Value {
		s1, n1 := timeParts(args[0])
		s2, n2 := timeParts(args[1])
		return Ite(timeLess(s1, n1, s2, n2), c64(-1), Ite(timeLess(s2, n2, s1, n1), c64(1), c64(0)))
	}
	intrinsics["(time.Time).IsZero"] = func(e *Engine, fr *frame, fn *ssa.Function, args []Value, g *Term, pos token.Pos) Value {
		s1, n1 := timeParts(args[0])
		return And(Eq(s1, c64(0)), Eq(n1, c64(0)))
	}
	intrinsics["(time.Time).Unix"] = func(e *Engine, fr *frame, fn *ssa.Function, args []Value, g *Term, pos token.Pos) Value {
		s1, _ := timeParts(args[0])
		return s1
	}
	intrinsics["(time.Time).UnixNano"] = func(e *Engine, fr *frame, fn *ssa.Function, args []Value, g *Term, pos token.Pos) Value {
		s1, n1 := timeParts(args[0])
		return Add(Mul(s1, Const(64, nsPerS)), n1)
	}
	intrinsics["(time.Time).UnixMilli"] = func(e *Engine, fr *frame, fn *ssa.Function, args []Value, g *Term, pos token.Pos) Value {
		s1, n1 := timeParts(args[0])
		return Add(Mul(s1, Const(64, 1000)), Zext(UDiv(Extract(n1, 31, 0), Const(32, 1000000)), 32))
	}
	intrinsics["(time.Time).UnixMicro"] = func(e *Engine, fr *frame, fn *ssa.Function, args []Value, g *Term, pos token.Pos) Value {
		s1, n1 := timeParts(args[0])
		return Add(Mul(s1, Const(64, 1000000)), Zext(UDiv(Extract(n1, 31, 0), Const(32, 1000)), 32))
	}
	intrinsics["(time.Time).Round"] = func(e *Engine, fr *frame, fn *ssa.Function, args []Value, g *Term, pos token.Pos) Value {
		return e.timeRound(args[0], args[1].(*Term), true)
	}
	intrinsics["(time.Time).Truncate"] = func(e *Engine, fr *frame, fn *ssa.Function, args []Value, g *Term, pos token.Pos) Value {
		return e.timeRound(args[0], args[1].(*Term), false)
	}
	intrinsics["time.Unix"] = func(e *Engine, fr *frame, fn *ssa.Function, args []Value, g *Term, pos token.Pos) Value {
		sec, ns := args[0].(*Term), args[1].(*Term)
		if ns.IsConst() && ns.val < nsPerS {
			return mkTime(sec, ns)
		}
		return e.timeAdd(sec, c64(0), ns)
	}
	intrinsics["time.UnixMilli"] = func(e *Engine, fr *frame, fn *ssa.Function, args []Value, g *Term, pos token.Pos) Value {
		q, r := e.divmodConst(args[0].(*Term), 1000, "unixmilli")
		return mkTime(q, Mul(r, Const(64, 1000000)))
	}
	intrinsics["time.UnixMicro"] = func(e *Engine, fr *frame, fn *ssa.Function, args []Value, g *Term, pos token.Pos) Value {
		q, r := e.divmodConst(args[0].(*Term), 1000000, "unixmicro")
		return mkTime(q, Mul(r, Const(64, 1000)))
	}
	for _, n := range []string{"(time.Time).Format", "(time.Time).String", "(time.Duration).String"} {
		nn := n
		intrinsics[n] = func(e *Engine, fr *frame, fn *ssa.Function, args []Value, g *Term, pos token.Pos) Value {
			return e.opaqueString(nn)
		}
	}
	for _, n := range []string{"(time.Time).UTC", "(time.Time).Local"} {
		intrinsics[n] = func(e *Engine, fr *frame, fn *ssa.Function, args []Value, g *Term, pos token.Pos) Value {
			return args[0]
		}
	}
}

// time.After(d): a channel on which the timer's tick is already available.
// (A blocking receive therefore completes, as it eventually does in reality;
// in a select with other ready cases the choice stays nondeterministic.)
func init() {
	intrinsics["time.After"] = func(e *Engine, fr *frame, fn *ssa.Function, args []Value, g *Term, pos token.Pos) Value {
		ct := fn.Signature.Results().At(0).Type()
		o := newObject("chan:time.After", ct, nil)
		elemT := ct.Underlying().(*types.Chan).Elem()
		o.ch = &ChanData{closed: tFalse, count: c64(1), cap: 1, elemT: elemT, elems: []Value{e.timeNow(g)}}
		return &ChanV{T: []PtrTarget{{G: tTrue, Obj: o}}}
	}
}

// time.NewTicker: a ticker whose channel never delivers inside a harness
// (periodic housekeeping is outside every claim); Stop/Reset are no-ops.
func init() {
	intrinsics["time.NewTicker"] = func(e *Engine, fr *frame, fn *ssa.Function, args []Value, g *Term, pos token.Pos) Value {
		tt := fn.Signature.Results().At(0).Type().(*types.Pointer).Elem()
		v := zeroValue(tt).(*StructV)
		st := tt.Underlying().(*types.Struct)
		for i := 0; i < st.NumFields(); i++ {
			if st.Field(i).Name() == "C" {
				ct := st.Field(i).Type()
				o := newObject("chan:ticker", ct, nil)
				o.ch = &ChanData{closed: tFalse, count: c64(0), cap: 1, elemT: ct.Underlying().(*types.Chan).Elem()}
				v.F[i] = &ChanV{T: []PtrTarget{{G: tTrue, Obj: o}}}
			}
		}
		return ptrTo(newObject("ticker", tt, v))
	}
	intrinsics["(*time.Ticker).Stop"] = noop
	intrinsics["(*time.Ticker).Reset"] = noop
}


// single-value model versions of the remaining Time operations
func init() {
	wrap := func(name string, f func(e *Engine, args []Value, g *Term) Value) {
		old := intrinsics[name]
		intrinsics[name] = func(e *Engine, fr *frame, fn *ssa.Function, args []Value, g *Term, pos token.Pos) Value {
			if e.unitNs() != 0 {
				return f(e, args, g)
			}
			return old(e, fr, fn, args, g, pos)
		}
	}
	wrap("(time.Time).Add", func(e *Engine, a []Value, g *Term) Value { return uTime(Add(uVal(a[0]), e.uDur(a[1].(*Term)))) })
	wrap("(time.Time).Before", func(e *Engine, a []Value, g *Term) Value { return Slt(uVal(a[0]), uVal(a[1])) })
	wrap("(time.Time).After", func(e *Engine, a []Value, g *Term) Value { return Slt(uVal(a[1]), uVal(a[0])) })
	wrap("(time.Time).Equal", func(e *Engine, a []Value, g *Term) Value { return Eq(uVal(a[0]), uVal(a[1])) })
	wrap("(time.Time).Compare", func(e *Engine, a []Value, g *Term) Value {
		return Ite(Slt(uVal(a[0]), uVal(a[1])), c64(-1), Ite(Slt(uVal(a[1]), uVal(a[0])), c64(1), c64(0)))
	})
	wrap("(time.Time).IsZero", func(e *Engine, a []Value, g *Term) Value { return Eq(uVal(a[0]), c64(0)) })
	wrap("(time.Time).Unix", func(e *Engine, a []Value, g *Term) Value { return SDiv(uVal(a[0]), c64(nsPerS/e.unitNs())) })
	wrap("(time.Time).UnixNano", func(e *Engine, a []Value, g *Term) Value { return Mul(uVal(a[0]), c64(e.unitNs())) })
	wrap("(time.Time).UnixMilli", func(e *Engine, a []Value, g *Term) Value {
		if e.unitNs() == 1 {
			return SDiv(uVal(a[0]), c64(1000000))
		}
		return uVal(a[0])
	})
	wrap("(time.Time).UnixMicro", func(e *Engine, a []Value, g *Term) Value {
		if e.unitNs() == 1 {
			return SDiv(uVal(a[0]), c64(1000))
		}
		return Mul(uVal(a[0]), c64(1000))
	})
	wrap("time.Unix", func(e *Engine, a []Value, g *Term) Value {
		u := e.unitNs()
		return uTime(Add(Mul(a[0].(*Term), c64(nsPerS/u)), e.uDur(a[1].(*Term))))
	})
	wrap("time.UnixMilli", func(e *Engine, a []Value, g *Term) Value {
		if e.unitNs() == 1 {
			return uTime(Mul(a[0].(*Term), c64(1000000)))
		}
		return uTime(a[0].(*Term))
	})
	wrap("time.UnixMicro", func(e *Engine, a []Value, g *Term) Value {
		if e.unitNs() == 1 {
			return uTime(Mul(a[0].(*Term), c64(1000)))
		}
		return uTime(SDiv(a[0].(*Term), c64(1000)))
	})
}
