package main

import (
	"fmt"
	"go/ast"
	"go/parser"
	"go/token"
	"go/types"
	"os"
	"path/filepath"
	"sort"
	"strings"
)

// Native mirroring of the symbolic redirect table.
//
// A redirect "pkg.F" -> "vStub" makes the symbolic executor call the Go stub
// vStub (in the harness overlay) wherever the real code calls F.  For the
// native replay the same must happen, otherwise a counterexample that depends
// on a stub's outcome cannot reproduce.  For every redirected function that
// lives in a package of the module under test, a copy of its source file is
// patched (in the scratch overlay of `go test`, never under /repo):
//
//   same package as the harness:   func F(a, b) R { if vReplayRedirect { return vStub(a, b) }; ...
//   another package of the module: var VHook_F func(a, b) R   (added to the copy)
//                                  func F(a, b) R { if VHook_F != nil { return VHook_F(a, b) }; ...
//                                  and the replay test sets  pkg.VHook_F = vStub  in its init.
//
// Redirects of standard-library or third-party functions (btree, net/url) are
// not mirrored: natively the real implementation runs, which is one instance
// of the contract the stub states.

type redirectTarget struct {
	pkgPath string // import path
	recv    string // receiver type name ("" for functions), without pointer star
	name    string
}

func parseRedirectKey(k string) (redirectTarget, bool) {
	// "(*path/pkg.Type).Method" | "(path/pkg.Type).Method" | "path/pkg.Func"
	if strings.HasPrefix(k, "(") {
		end := strings.Index(k, ").")
		if end < 0 {
			return redirectTarget{}, false
		}
		inner := strings.TrimPrefix(k[1:end], "*")
		dot := strings.LastIndex(inner, ".")
		if dot < 0 {
			return redirectTarget{}, false
		}
		tn := inner[dot+1:]
		if i := strings.Index(tn, "["); i >= 0 {
			tn = tn[:i]
		}
		return redirectTarget{pkgPath: inner[:dot], recv: tn, name: k[end+2:]}, true
	}
	dot := strings.LastIndex(k, ".")
	if dot < 0 {
		return redirectTarget{}, false
	}
	return redirectTarget{pkgPath: k[:dot], name: k[dot+1:]}, true
}

type textEdit struct {
	off  int
	text string
}

// redirectPatches returns patched file contents (keyed by absolute path under
// repoRoot) and the init statements + imports the replay test needs.
func redirectPatches(harnessPkgRel string, redirects map[string]string, have map[string][]byte) (files map[string][]byte, imports []string, inits []string, notes []string, err error) {
	files = map[string][]byte{}
	keys := make([]string, 0, len(redirects))
	for k := range redirects {
		keys = append(keys, k)
	}
	sort.Strings(keys)
	edits := map[string][]textEdit{}
	srcs := map[string][]byte{}
	impIdx := map[string]string{}
	for _, k := range keys {
		stub := redirects[k]
		rt, ok := parseRedirectKey(k)
		if !ok || !strings.HasPrefix(rt.pkgPath, modPath) {
			notes = append(notes, "not mirrored natively (outside the module): "+k)
			continue
		}
		rel := strings.TrimPrefix(strings.TrimPrefix(rt.pkgPath, modPath), "/")
		same := rel == harnessPkgRel
		dir := filepath.Join(repoRoot, rel)
		ents, e := os.ReadDir(dir)
		if e != nil {
			return nil, nil, nil, nil, e
		}
		found := false
		for _, en := range ents {
			if !strings.HasSuffix(en.Name(), ".go") || strings.HasSuffix(en.Name(), "_test.go") || strings.HasPrefix(en.Name(), "zz_verif_") {
				continue
			}
			path := filepath.Join(dir, en.Name())
			src, ok := srcs[path]
			if !ok {
				if b, patched := have[path]; patched {
					src = b
				} else {
					src, e = os.ReadFile(path)
					if e != nil {
						return nil, nil, nil, nil, e
					}
				}
				srcs[path] = src
			}
			fset := token.NewFileSet()
			f, e := parser.ParseFile(fset, path, src, parser.SkipObjectResolution)
			if e != nil {
				continue
			}
			for _, d := range f.Decls {
				fd, ok := d.(*ast.FuncDecl)
				if !ok || fd.Name.Name != rt.name || fd.Body == nil {
					continue
				}
				recvName, recvType := "", ""
				if fd.Recv != nil && len(fd.Recv.List) == 1 {
					recvType = types.ExprString(fd.Recv.List[0].Type)
					if len(fd.Recv.List[0].Names) == 1 {
						recvName = fd.Recv.List[0].Names[0].Name
					}
				}
				bare := strings.TrimPrefix(recvType, "*")
				if i := strings.Index(bare, "["); i >= 0 {
					bare = bare[:i]
				}
				if bare != rt.recv {
					continue
				}
				if fd.Type.TypeParams != nil || strings.Contains(recvType, "[") {
					notes = append(notes, "not mirrored natively (generic): "+k)
					found = true
					continue
				}
				// argument list
				var args []string
				okNames := true
				if rt.recv != "" {
					if recvName == "" || recvName == "_" {
						okNames = false
					}
					args = append(args, recvName)
				}
				var ptypes []string
				if rt.recv != "" {
					ptypes = append(ptypes, recvName+" "+recvType)
				}
				for _, p := range fd.Type.Params.List {
					ts := types.ExprString(p.Type)
					if len(p.Names) == 0 {
						okNames = false
					}
					for _, n := range p.Names {
						if n.Name == "_" {
							okNames = false
						}
						a := n.Name
						if _, isVar := p.Type.(*ast.Ellipsis); isVar {
							a += "..."
						}
						args = append(args, a)
						ptypes = append(ptypes, n.Name+" "+ts)
					}
				}
				if !okNames {
					return nil, nil, nil, nil, fmt.Errorf("redirect %s: unnamed parameter or receiver, cannot mirror natively", k)
				}
				results := ""
				hasRes := fd.Type.Results != nil && len(fd.Type.Results.List) > 0
				if hasRes {
					var rs []string
					for _, r := range fd.Type.Results.List {
						ts := types.ExprString(r.Type)
						n := len(r.Names)
						if n == 0 {
							n = 1
						}
						for i := 0; i < n; i++ {
							rs = append(rs, ts)
						}
					}
					results = " (" + strings.Join(rs, ", ") + ")"
				}
				lb := fset.Position(fd.Body.Lbrace).Offset + 1
				call := ""
				if same {
					call = stub + "(" + strings.Join(args, ", ") + ")"
					if hasRes {
						edits[path] = append(edits[path], textEdit{lb, "\n\tif vReplayRedirect {\n\t\treturn " + call + "\n\t}\n"})
					} else {
						edits[path] = append(edits[path], textEdit{lb, "\n\tif vReplayRedirect {\n\t\t" + call + "\n\t\treturn\n\t}\n"})
					}
				} else {
					hook := "VHook_" + rt.recv + "_" + rt.name
					call = hook + "(" + strings.Join(args, ", ") + ")"
					decl := "\nvar " + hook + " func(" + strings.Join(ptypes, ", ") + ")" + results + "\n"
					if hasRes {
						edits[path] = append(edits[path], textEdit{lb, "\n\tif " + hook + " != nil {\n\t\treturn " + call + "\n\t}\n"})
					} else {
						edits[path] = append(edits[path], textEdit{lb, "\n\tif " + hook + " != nil {\n\t\t" + call + "\n\t\treturn\n\t}\n"})
					}
					edits[path] = append(edits[path], textEdit{len(src), decl})
					alias, ok := impIdx[rt.pkgPath]
					if !ok {
						alias = fmt.Sprintf("vhp%d", len(impIdx))
						impIdx[rt.pkgPath] = alias
						imports = append(imports, alias+" \""+rt.pkgPath+"\"")
					}
					inits = append(inits, alias+"."+hook+" = "+stub)
				}
				found = true
			}
		}
		if !found {
			return nil, nil, nil, nil, fmt.Errorf("redirect %s: function not found in %s", k, rel)
		}
	}
	for path, es := range edits {
		sort.SliceStable(es, func(i, j int) bool { return es[i].off > es[j].off })
		b := append([]byte(nil), srcs[path]...)
		for _, e := range es {
			b = append(b[:e.off], append([]byte(e.text), b[e.off:]...)...)
		}
		files[path] = b
	}
	return files, imports, inits, notes, nil
}
